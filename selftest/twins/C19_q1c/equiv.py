# coding: utf-8
"""Differential test: prints a digest of everything observable.

Run as:  cd /tmp/agents6/C19 && /venv/bin/python pairs_out/C19_q1/equiv.py

The digest must be identical on the pristine tree and with clean.diff applied.
"""
import sys

sys.path.insert(0, "/tmp/agents6/C19")
import tests  # noqa: E402,F401  (splices the kits into the moclo namespace)

import copy  # noqa: E402
import hashlib  # noqa: E402
import random  # noqa: E402
import re  # noqa: E402
import warnings  # noqa: E402

from Bio.Restriction import BsaI, BpiI, BsmBI, BtsI  # noqa: E402
from Bio.Seq import Seq  # noqa: E402
from Bio.SeqFeature import (  # noqa: E402
    SeqFeature,
    FeatureLocation,
    CompoundLocation,
    BeforePosition,
    AfterPosition,
    Reference,
)
from Bio.SeqRecord import SeqRecord  # noqa: E402

from moclo.core import AbstractModule, AbstractVector, AbstractPart, Entry  # noqa: E402
from moclo.core._assembly import AssemblyManager  # noqa: E402
from moclo.record import CircularRecord  # noqa: E402
from moclo.regex import DNARegex  # noqa: E402

warnings.simplefilter("ignore", DeprecationWarning)

LOG = []


_ADDRESS = re.compile(r" at 0x[0-9a-fA-F]+")


def log(*items):
    # memory addresses in default reprs are not behaviour
    LOG.append(_ADDRESS.sub(" at 0x?", " | ".join(str(i) for i in items)))


# --- describing things ------------------------------------------------------


def d_loc(loc):
    if loc is None:
        return "None"
    return "+".join(
        "{!r}:{!r}:{}".format(p.start, p.end, p.strand) for p in loc.parts
    ) + ("/" + loc.operator if len(loc.parts) > 1 else "")


def d_qual(value):
    if isinstance(value, list):
        return "[" + ",".join(d_qual(v) for v in value) + "]"
    if isinstance(value, Reference):
        return "Ref<{}|{}>".format(value.title, value.authors)
    return repr(value)


def d_feature(f):
    quals = ";".join("{}={}".format(k, d_qual(v)) for k, v in sorted(f.qualifiers.items()))
    return "{}@{}#{}{{{}}}".format(f.type, d_loc(f.location), f.id, quals)


def d_annot(annotations):
    return ";".join("{}={}".format(k, d_qual(v)) for k, v in sorted(annotations.items()))


def d_record(rec):
    if rec is None:
        return "None"
    if isinstance(rec, Seq):
        return "Seq:" + str(rec)
    return "{}:{}|{}|{}|{}|{}|{}|{}|{}".format(
        type(rec).__name__,
        str(rec.seq),
        rec.id,
        rec.name,
        rec.description,
        rec.dbxrefs,
        d_annot(rec.annotations),
        "//".join(d_feature(f) for f in rec.features),
        sorted(rec.letter_annotations.items()),
    )


def attempt(label, func, *args, **kwargs):
    """Run, log result or exception and the warnings raised."""
    with warnings.catch_warnings(record=True) as caught:
        warnings.simplefilter("always")
        warnings.simplefilter("ignore", DeprecationWarning)
        try:
            result = func(*args, **kwargs)
            out = ("ok", result)
        except Exception as err:  # noqa
            out = ("err", err)
    warns = [
        "{}:{}".format(type(w.message).__name__, w.message)
        for w in caught
        if "pkg_resources" not in str(w.message)
    ]
    if out[0] == "ok":
        r = out[1]
        if isinstance(r, (SeqRecord, Seq)):
            r = d_record(r)
        log(label, "OK", r, warns)
    else:
        e = out[1]
        extra = ""
        if hasattr(e, "start_overhang"):
            extra = "start_overhang={!r}".format(e.start_overhang)
        if hasattr(e, "duplicates"):
            extra = "dups={}".format([d.record.id for d in e.duplicates])
        log(label, "ERR", type(e).__name__, str(e), extra, warns)
    return out


# --- the regex layer --------------------------------------------------------

RNG = random.Random(190019)

PATTERNS = [
    "AA(NN)",
    "GGTCTCN(NNNN)(NN*N)(NNNN)NGAGACC",
    "GAAGACNN(NNNN)(NN*N)(NNNN)NNGTCTTC",
    "N(NNNN)(NGAGACCN*GGTCTCN)(NNNN)N",
    "GGTCTCN(AACG)(NN*N)(TATG)NGAGACC",
    "(RY)(W*)(SK)",
    "CGTCTCN(NNGG)(TCTCNNNNNN*?NNNNNGA)(GACC)NGAGACG",
    "(A)(C)?(G)",
]


def rand_dna(n, rng=RNG, case="upper"):
    s = "".join(rng.choice("ACGT") for _ in range(n))
    if case == "lower":
        return s.lower()
    if case == "mixed":
        return "".join(c.lower() if rng.random() < 0.5 else c for c in s)
    return s


def regex_layer():
    regexes = [DNARegex(p) for p in PATTERNS]
    for r in regexes:
        log("pattern", r.pattern, r.regex.pattern, r.regex.flags)
    log("transcribe", DNARegex._transcribe("ACGTNRYKMSWBDHVX(.*)?acgtn"))
    attempt("search-str", regexes[0].search, "ATGC")
    attempt("search-list", regexes[0].search, ["A", "A", "T", "G"])
    for k in range(260):
        rx = regexes[k % len(regexes)]
        case = ("upper", "lower", "mixed")[k % 3]
        if k % 4 == 0:
            text = rand_dna(RNG.randint(0, 40), case=case)
        else:
            # plant something that can match
            core = {
                0: "AA" + rand_dna(2),
                1: "GGTCTCA" + rand_dna(4) + rand_dna(RNG.randint(2, 12)) + rand_dna(4) + "TGAGACC",
                2: "GAAGACAA" + rand_dna(4) + rand_dna(RNG.randint(2, 12)) + rand_dna(4) + "TTGTCTTC",
                3: "A" + rand_dna(4) + "AGAGACC" + rand_dna(RNG.randint(0, 9)) + "GGTCTCA" + rand_dna(4) + "C",
                4: "GGTCTCAAACG" + rand_dna(RNG.randint(2, 9)) + "TATGAGAGACC",
                5: "AC" + "AT" * RNG.randint(0, 4) + "CG",
                6: "CGTCTCA" + rand_dna(2) + "GGTCTCA" + rand_dna(RNG.randint(9, 15)) + "TGAGACCAGAGACG",
                7: "A" + RNG.choice(["C", ""]) + "G",
            }[k % len(regexes)]
            text = rand_dna(RNG.randint(0, 9)) + core + rand_dna(RNG.randint(0, 9))
            if case == "lower":
                text = text.lower()
            elif case == "mixed":
                text = "".join(c.lower() if RNG.random() < 0.5 else c for c in text)
            if text:
                shift = RNG.randrange(len(text))
                text = text[shift:] + text[:shift]
        feats = []
        if len(text) > 6:
            a = RNG.randrange(len(text) - 3)
            feats.append(SeqFeature(FeatureLocation(a, a + 3, 1), type="misc", qualifiers={"note": ["x"]}))
        subjects = [
            ("seq-lin", Seq(text), {}),
            ("seq-circ", Seq(text), {"linear": False}),
            ("rec-lin", SeqRecord(Seq(text), id="r", features=copy.deepcopy(feats)), {}),
            ("rec-circ", SeqRecord(Seq(text), id="r", features=copy.deepcopy(feats)), {"linear": False}),
            ("circ", CircularRecord(Seq(text), id="c", features=copy.deepcopy(feats)), {}),
            ("circ-lin", CircularRecord(Seq(text), id="c", features=copy.deepcopy(feats)), {"linear": True}),
        ]
        if k % 5 == 0 and text:
            subjects.append(("seq-pos", Seq(text), {"pos": RNG.randrange(len(text)), "linear": False}))
            subjects.append(("seq-endpos", Seq(text), {"endpos": RNG.randrange(len(text) + 2), "linear": False}))
        for name, subject, kw in subjects:
            with warnings.catch_warnings(record=True) as caught:
                warnings.simplefilter("always")
                try:
                    m = rx.search(subject, **kw)
                except Exception as err:  # noqa
                    log("rx", k, name, "ERR", type(err).__name__, err)
                    continue
            if m is None:
                log("rx", k, name, text, "None")
                continue
            groups = []
            for g in range(rx.regex.groups + 1):
                grp = m.group(g)
                groups.append((m.span(g), d_record(grp)))
                if hasattr(m, "_letters"):
                    # private helper of the refactoring: must agree with group()
                    if str(m._letters(g)) != str(getattr(grp, "seq", grp)):
                        log("rx", k, name, g, "letters differ from group", str(m._letters(g)))
            log("rx", k, name, text, m.start(), m.end(), m.shift, m.rec is subject, groups, len(caught))


# --- the object model -------------------------------------------------------


class BsaIModule(AbstractModule):
    cutter = BsaI


class BsaIVector(AbstractVector):
    cutter = BsaI


class BpiIModule(AbstractModule):
    cutter = BpiI


class BpiIVector(AbstractVector):
    cutter = BpiI


class BsmBIModule(AbstractModule):
    cutter = BsmBI


class BsmBIVector(AbstractVector):
    cutter = BsmBI


class BtsIModule(AbstractModule):
    """A module cut by an enzyme that leaves 3' overhangs."""

    cutter = BtsI

    @classmethod
    def structure(cls):
        return "GCAGTG(NN)(NN*N)(NN)CACTGC"


class BtsIVector(AbstractVector):
    cutter = BtsI

    @classmethod
    def structure(cls):
        return "(NN)(CACTGCN*GCAGTG)(NN)"


class NoCutterModule(AbstractModule):
    pass


class AATGPart(AbstractPart, BsaIModule):
    cutter = BsaI
    signature = ("AATG", "GCTT")


class GCTTPart(AbstractPart, BsaIModule):
    cutter = BsaI
    signature = ("GCTT", "CGCT")


class VecPart(AbstractPart, BsaIVector):
    cutter = BsaI
    signature = ("AATG", "CGCT")


class AbstractOnly(AbstractPart):
    cutter = BsaI


SITES = {
    "BsaI": ("GGTCTC", 1, 4, BsaIModule, BsaIVector),
    "BpiI": ("GAAGAC", 2, 4, BpiIModule, BpiIVector),
    "BsmBI": ("CGTCTC", 1, 4, BsmBIModule, BsmBIVector),
    "BtsI": ("GCAGTG", 0, 2, BtsIModule, BtsIVector),
}
ALL_SITES = ["GGTCTC", "GAGACC", "GAAGAC", "GTCTTC", "CGTCTC", "GAGACG", "GCAGTG", "CACTGC"]


def revcomp(s):
    return str(Seq(s).reverse_complement())


def clean_dna(n, rng):
    """Random DNA without any of the recognition sites."""
    while True:
        s = rand_dna(n, rng)
        d = s + s
        if not any(site in d for site in ALL_SITES):
            return s


def safe_join(parts, rng):
    return "".join(parts)


def make_overhangs(count, size, rng):
    """Distinct overhangs, none palindromic, none the reverse complement of another."""
    out = []
    while len(out) < count:
        o = rand_dna(size, rng)
        if o == revcomp(o) or o in out or revcomp(o) in out:
            continue
        out.append(o)
    return out


def random_features(length, rng, refs):
    feats = []
    for _ in range(rng.randint(0, 4)):
        kind = rng.randrange(6)
        a = rng.randrange(length)
        b = rng.randint(a + 1, min(length, a + 12))
        strand = rng.choice([1, -1, None])
        if kind == 0 and b - a > 3:
            loc = CompoundLocation(
                [FeatureLocation(a, a + 2, strand), FeatureLocation(a + 3, b, strand)]
            )
        elif kind == 1:
            loc = FeatureLocation(BeforePosition(a), AfterPosition(b), strand)
        elif kind == 2 and length > 8:
            # wraps the origin
            loc = CompoundLocation(
                [FeatureLocation(length - 3, length, strand), FeatureLocation(0, 3, strand)]
            )
        else:
            loc = FeatureLocation(a, b, strand)
        quals = {"label": ["f{}".format(rng.randrange(100))]}
        if refs and rng.random() < 0.6:
            quals["citation"] = ["[{}]".format(rng.randint(1, len(refs)))]
        feats.append(SeqFeature(loc, type=rng.choice(["CDS", "misc_feature", "promoter"]), qualifiers=quals))
    if rng.random() < 0.3:
        feats.append(
            SeqFeature(FeatureLocation(0, length), type="source", qualifiers={"organism": ["x"]})
        )
    return feats


def random_refs(rng, tag):
    refs = []
    for i in range(rng.randint(0, 3)):
        r = Reference()
        r.title = "paper {}".format(rng.choice(["alpha", "beta", "gamma", tag]))
        r.authors = "author {}".format(rng.randrange(3))
        refs.append(r)
    return refs


def recase(s, mode, rng):
    if mode == "lower":
        return s.lower()
    if mode == "mixed":
        return "".join(c.lower() if rng.random() < 0.5 else c for c in s)
    return s


def build_record(text, ident, rng, wrap="circular", rotate=None, annotate=True):
    length = len(text)
    refs = random_refs(rng, ident) if annotate else []
    feats = random_features(length, rng, refs) if annotate else []
    annotations = {}
    if refs:
        annotations["references"] = refs
    if annotate and rng.random() < 0.3:
        annotations["topology"] = "circular"
    if annotate and rng.random() < 0.3:
        annotations["molecule_type"] = "DNA"
    rec = CircularRecord(Seq(text), id=ident, name=ident + "_n", description=ident + " d",
                         features=feats, annotations=annotations)
    if rotate:
        rec = rec >> rotate
    if wrap == "plain":
        return SeqRecord(rec.seq, id=rec.id, name=rec.name, description=rec.description,
                         features=rec.features, annotations=rec.annotations)
    if wrap == "linear":
        plain = SeqRecord(rec.seq, id=rec.id, name=rec.name, description=rec.description,
                          features=rec.features, annotations=dict(rec.annotations, topology="linear"))
        return plain
    return rec


def module_text(enzyme, up, target, down, rng, casing="upper"):
    site, gap, _size, _m, _v = SITES[enzyme]
    pad5, pad3 = clean_dna(rng.randint(0, 8), rng), clean_dna(rng.randint(0, 8), rng)
    if enzyme == "BtsI":
        body = site + up + target + down + revcomp(site)
    else:
        body = site + rand_dna(gap, rng) + up + target + down + rand_dna(gap, rng) + revcomp(site)
    return recase(pad5 + body + pad3, casing, rng)


def vector_text(enzyme, start, end, rng, casing="upper"):
    """A vector whose upstream overhang is `start` and downstream one is `end`."""
    site, gap, _size, _m, _v = SITES[enzyme]
    backbone = clean_dna(rng.randint(4, 20), rng)
    dropout = clean_dna(rng.randint(0, 10), rng)
    if enzyme == "BtsI":
        body = end + revcomp(site) + dropout + site + start
    else:
        body = (
            rand_dna(1, rng) + end + rand_dna(gap, rng) + revcomp(site) + dropout
            + site + rand_dna(gap, rng) + start + rand_dna(1, rng)
        )
    return recase(body + backbone, casing, rng)


def describe_entity(label, entity):
    attempt(label + ".valid", entity.is_valid)
    attempt(label + ".valid2", entity.is_valid)
    attempt(label + ".start", entity.overhang_start)
    attempt(label + ".end", entity.overhang_end)
    attempt(label + ".target", entity.target_sequence)
    if hasattr(entity, "placeholder_sequence"):
        attempt(label + ".placeholder", entity.placeholder_sequence)
    log(label + ".record", d_record(entity.record), str(entity.seq))


def object_layer():
    rng = random.Random(424242)
    log("structures", BsaIModule.structure(), BsaIVector.structure(), BpiIModule.structure(),
        BsmBIVector.structure(), AATGPart.structure(), VecPart.structure())
    attempt("abstract-structure", AbstractOnly.structure)
    attempt("nocutter", NoCutterModule, CircularRecord(Seq("ATGC"), id="x"))
    attempt("abstractmodule", AbstractModule, CircularRecord(Seq("ATGC"), id="x"))
    attempt("abstractvector", AbstractVector, CircularRecord(Seq("ATGC"), id="x"))
    attempt("abstractpart", AbstractPart, CircularRecord(Seq("ATGC"), id="x"))

    enzymes = ["BsaI", "BpiI", "BsmBI", "BtsI"]
    for case in range(150):
        enzyme = enzymes[case % 4] if case % 7 else "BsaI"
        _site, _gap, size, mod_cls, vec_cls = SITES[enzyme]
        count = rng.randint(1, 4)
        ovh = make_overhangs(count + 1, size, rng)
        scenario = rng.choice(
            ["ok"] * 8
            + ["missing", "duplicate", "revcomp", "unused", "badvector", "illegal", "nosite", "plain", "linear"]
        )
        casing = rng.choice(["upper", "upper", "upper", "lower", "mixed"])
        label = "asm{}:{}:{}:{}".format(case, enzyme, scenario, casing)

        vec_start, vec_end = ovh[count], ovh[0]
        if scenario == "badvector":
            vec_start = vec_end
        vtext = vector_text(enzyme, vec_start, vec_end, rng, casing)
        vrec = build_record(vtext, "vec{}".format(case), rng, rotate=rng.randrange(len(vtext)))
        vector = vec_cls(vrec)

        modules = []
        for j in range(count):
            target = clean_dna(rng.randint(2, 25), rng)
            if scenario == "illegal" and j == 0:
                target = target + SITES[enzyme][0] + "A" + target
            text = module_text(enzyme, ovh[j], target, ovh[j + 1], rng, casing)
            if scenario == "nosite" and j == 0:
                text = clean_dna(30, rng)
            wrap = "circular"
            if scenario in ("plain", "linear") and j == 0:
                wrap = scenario
            # rotations go through every offset, so the origin regularly falls
            # inside an overhang, a recognition site or the target
            rotate = rng.randrange(len(text)) if rng.random() < 0.8 else 0
            rec = build_record(text, "mod{}_{}".format(case, j), rng, wrap=wrap, rotate=rotate)
            modules.append(mod_cls(rec))
        if scenario == "missing" and count > 1:
            del modules[rng.randrange(count)]
        elif scenario == "missing":
            text = module_text(enzyme, ovh[0], clean_dna(5, rng), make_overhangs(1, size, rng)[0], rng, casing)
            modules = [mod_cls(build_record(text, "lonely", rng))]
        if scenario == "duplicate":
            text = module_text(enzyme, ovh[0], clean_dna(6, rng), ovh[1], rng, casing)
            modules.insert(rng.randint(0, len(modules)), mod_cls(build_record(text, "dup{}".format(case), rng)))
        if scenario == "revcomp":
            text = module_text(enzyme, revcomp(ovh[rng.randrange(count)]), clean_dna(6, rng),
                               make_overhangs(1, size, rng)[0], rng, casing)
            modules.append(mod_cls(build_record(text, "rc{}".format(case), rng)))
        if scenario == "unused":
            extra = make_overhangs(2, size, rng)
            text = module_text(enzyme, extra[0], clean_dna(6, rng), extra[1], rng, casing)
            modules.append(mod_cls(build_record(text, "spare{}".format(case), rng)))
        rng.shuffle(modules)

        before = [d_record(e.record) for e in modules + [vector]]
        kwargs = {}
        if case % 3 == 0:
            kwargs = {"id": "built{}".format(case), "name": "nm{}".format(case)}
        if case % 5 == 0:
            describe_entity(label + ".pre.vec", vector)
            describe_entity(label + ".pre.mod0", modules[0])
        listed = list(modules)
        attempt(label, vector.assemble, *modules, **kwargs)
        log(label + ".args-untouched", listed == modules and all(a is b for a, b in zip(listed, modules)))
        after = [d_record(e.record) for e in modules + [vector]]
        log(label + ".records", before == after, after)
        # a second run with the same (now re-referenced) records
        if case % 4 == 0:
            attempt(label + ".again", vector.assemble, *modules, **kwargs)
            log(label + ".records2", [d_record(e.record) for e in modules + [vector]])
        if case % 6 == 0:
            describe_entity(label + ".post.mod0", modules[0])
            describe_entity(label + ".post.vec", vector)

    # the assembly manager used directly
    ovh = make_overhangs(3, 4, rng)
    v = BsaIVector(build_record(vector_text("BsaI", ovh[2], ovh[0], rng), "mv", rng))
    m1 = BsaIModule(build_record(module_text("BsaI", ovh[0], "ACGTAC", ovh[1], rng), "mm1", rng))
    m2 = BsaIModule(build_record(module_text("BsaI", ovh[1], "TTTTAC", ovh[2], rng), "mm2", rng))
    mods = [m2, m1]
    mgr = AssemblyManager(v, mods, id_="direct", name="direct_n")
    log("mgr", mgr.vector is v, mgr.modules is mods, mgr.elements == [m2, m1, v], mgr.name, mgr.id)
    attempt("mgr.assemble", mgr.assemble)
    attempt("mgr.assemble2", mgr.assemble)
    log("mgr.after", mods == [m2, m1], [d_record(e.record) for e in mgr.elements])
    bad = SeqRecord(Seq("ACGT"), id="bad", features=[
        SeqFeature(FeatureLocation(0, 2), type="misc", qualifiers={"citation": ["1"]})])
    attempt("mgr.badcitation", mgr._deref_citations, bad)
    bad2 = SeqRecord(Seq("ACGT"), id="bad2", features=[
        SeqFeature(FeatureLocation(0, 2), type="misc", qualifiers={"citation": ["[3]"]})])
    attempt("mgr.badindex", mgr._deref_citations, bad2)

    # parts
    p1 = "GGTCTCAAATG" + "ACCAGT" + "GCTTAGAGACC" + clean_dna(9, rng)
    p2 = "GGTCTCAGCTT" + "CATCAT" + "CGCTAGAGACC" + clean_dna(9, rng)
    pv = "AAATGAGAGACC" + clean_dna(5, rng) + "GGTCTCACGCTA" + clean_dna(12, rng)
    for name, text in (("p1", p1), ("p2", p2), ("pv", pv), ("junk", clean_dna(20, rng))):
        for shift in (0, 3, 9, len(text) - 2):
            rec = CircularRecord(Seq(text), id=name) >> shift
            for cls in (AATGPart, GCTTPart, VecPart):
                attempt("part:{}:{}:{}".format(name, shift, cls.__name__), lambda: cls(rec).is_valid())
            attempt("characterize:{}:{}".format(name, shift),
                    lambda: type(AbstractPart.characterize(rec)).__name__)
    attempt("parts.assemble", VecPart(CircularRecord(Seq(pv), id="pv") >> 5).assemble,
            GCTTPart(CircularRecord(Seq(p2), id="p2") >> 13), AATGPart(CircularRecord(Seq(p1), id="p1") >> 8))


def class_layer():
    """How the classes are put together, as far as callers can tell."""
    from Bio.Restriction import EcoRV
    from moclo.core._structured import StructuredRecord
    from moclo.core import Product, Cassette, Device, EntryVector, CassetteVector, DeviceVector
    from moclo._utils import isabstract

    rng = random.Random(77)

    class Blunt(AbstractModule):
        cutter = EcoRV

    class BluntVector(AbstractVector):
        cutter = EcoRV

    class Late(AbstractModule):
        pass

    class Raising(BsaIModule):
        def target_sequence(self):
            raise KeyError("boom")

    class NoArgs(BsaIModule):
        def target_sequence(self):
            raise KeyError()

    rec = CircularRecord(Seq("GGTCTCAAATGCCCCGCTTTGAGACCAAAAAA"), id="late")
    attempt("blunt", Blunt, rec)
    attempt("bluntvector", BluntVector, rec)
    attempt("late.before", Late, rec)
    Late.cutter = BsaI
    attempt("late.after", lambda: Late(rec).is_valid())
    attempt("late.structure", Late.structure)
    for cls in (AbstractModule, AbstractVector, AbstractPart, Entry, Product, Cassette, Device,
                EntryVector, CassetteVector, DeviceVector, BsaIModule, BsaIVector, AATGPart, VecPart):
        log("class", cls.__name__, issubclass(cls, StructuredRecord), issubclass(cls, AbstractModule),
            issubclass(cls, AbstractVector), isabstract(cls), getattr(cls, "_level", "n/a"), cls.cutter,
            sorted(n for n in ("overhang_start", "overhang_end", "target_sequence", "structure",
                               "is_valid", "assemble", "placeholder_sequence", "characterize")
                   if hasattr(cls, n)),
            (cls.target_sequence.__doc__ or "")[:40] if hasattr(cls, "target_sequence") else None)

    # the match is searched once per entity, and an illegal site is reported once
    text = "GGTCTCAAATGCCGGTCTCACCGCTTTGAGACCAAAAAA"
    entity = BsaIModule(CircularRecord(Seq(text), id="illegal"))
    attempt("illegal.valid", entity.is_valid)
    attempt("illegal.valid2", entity.is_valid)
    attempt("illegal.start", entity.overhang_start)
    fine = BsaIModule(rec)
    log("match.cached", fine._match is fine._match, fine._match.rec is rec)
    log("regex.per-class", BsaIModule._get_regex() is BsaIModule._get_regex(),
        BsaIModule._get_regex() is BpiIModule._get_regex(), AATGPart._get_regex().pattern)

    # errors raised while walking the chain
    ovh = make_overhangs(3, 4, rng)
    v = BsaIVector(build_record(vector_text("BsaI", ovh[2], ovh[0], rng), "kv", rng))
    ok = BsaIModule(build_record(module_text("BsaI", ovh[0], "ACGTAC", ovh[1], rng), "km1", rng))
    for cls in (Raising, NoArgs):
        odd = cls(build_record(module_text("BsaI", ovh[1], "TTTTAC", ovh[2], rng), "km2", rng))
        attempt("keyerror." + cls.__name__, v.assemble, ok, odd)
        log("keyerror.records", d_record(ok.record), d_record(odd.record), d_record(v.record))

    # a vector handed modules of another letter case, and the other way round
    for vcase, mcase in (("upper", "lower"), ("lower", "upper"), ("mixed", "upper"), ("upper", "mixed")):
        ovh = make_overhangs(3, 4, rng)
        v = BsaIVector(build_record(vector_text("BsaI", ovh[2], ovh[0], rng, vcase), "cv", rng))
        a = BsaIModule(build_record(module_text("BsaI", ovh[0], "ACGTAC", ovh[1], rng, mcase), "ca", rng))
        b = BsaIModule(build_record(module_text("BsaI", ovh[1], "TTTTAC", ovh[2], rng, "upper"), "cb", rng))
        attempt("case.{}.{}".format(vcase, mcase), v.assemble, b, a)
        dup = BsaIModule(build_record(module_text("BsaI", ovh[0], "AC", ovh[1], rng, "lower"), "cd", rng))
        attempt("case.dup.{}.{}".format(vcase, mcase), v.assemble, b, a, dup)
        rc = BsaIModule(build_record(module_text("BsaI", revcomp(ovh[1]).lower(), "AC", "TTAG", rng), "cr", rng))
        attempt("case.rc.{}.{}".format(vcase, mcase), v.assemble, b, a, rc)

    log("manager", sorted(n for n in dir(AssemblyManager) if not n.startswith("__")),
        AssemblyManager._CITATION_RX.pattern)


def registry_layer():
    from moclo.registry.ytk import YTKRegistry
    from moclo.kits import ytk

    reg = YTKRegistry()
    vector = reg["pYTK095"].entity
    names = ["pYTK008", "pYTK047", "pYTK073", "pYTK074", "pYTK086", "pYTK092"]
    log("registry.types", [type(reg[n].entity).__name__ for n in names], type(vector).__name__)
    parts = [reg[n].entity for n in names]
    attempt("registry.assembly", vector.assemble, *parts)
    attempt("registry.swap", vector.assemble, *([reg["pYTK002"].entity] + parts[1:]))
    for n in names + ["pYTK095", "pYTK001"]:
        e = reg[n].entity
        attempt("registry.{}.start".format(n), e.overhang_start)
        attempt("registry.{}.end".format(n), e.overhang_end)
        attempt("registry.{}.target".format(n), lambda: str(e.target_sequence().seq))
    attempt("registry.entry-as-cassette", lambda: ytk.YTKCassette(reg["pYTK008"].entity.record).is_valid())


def main():
    regex_layer()
    object_layer()
    class_layer()
    registry_layer()
    blob = "\n".join(LOG).encode("utf-8")
    if "--dump" in sys.argv:
        sys.stdout.write(blob.decode("utf-8") + "\n")
    print("entries: {}".format(len(LOG)))
    print("digest: {}".format(hashlib.sha256(blob).hexdigest()))


if __name__ == "__main__":
    main()
