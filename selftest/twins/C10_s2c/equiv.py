# coding: utf-8
"""Differential test for the code behind property C10 (citations in assemblies).

Run as ``cd /tmp/agents8/C10 && /venv/bin/python pairs_out/C10_s2/equiv.py``.

Builds a few hundred assemblies (synthetic plasmids for several enzymes, every
class of every kit, registry plasmids with injected citations, failing
assemblies, malformed citations, plain SeqRecord inputs, repeated calls) and
prints a digest of every result, exception, warning and of the state of the
inputs afterwards.  The digest must not change under a behaviour-preserving
refactoring.
"""
from __future__ import print_function

import sys

sys.path.insert(0, "/tmp/agents8/C10")
import tests  # noqa: F401,E402  (splices the kits into the moclo namespace)

import collections  # noqa: E402
import copy  # noqa: E402
import hashlib  # noqa: E402
import inspect  # noqa: E402
import io  # noqa: E402
import lzma  # noqa: E402
import os  # noqa: E402
import random  # noqa: E402
import re  # noqa: E402
import tarfile  # noqa: E402
import warnings  # noqa: E402

import Bio.SeqIO  # noqa: E402
from Bio.Seq import Seq  # noqa: E402
from Bio.SeqFeature import (  # noqa: E402
    SeqFeature,
    FeatureLocation,
    CompoundLocation,
    Reference,
)
from Bio.SeqRecord import SeqRecord  # noqa: E402
from Bio import Restriction  # noqa: E402

from moclo import errors  # noqa: E402
from moclo.record import CircularRecord  # noqa: E402
from moclo.core import (  # noqa: E402
    AbstractModule,
    AbstractVector,
    AbstractPart,
    Entry,
    Cassette,
    CassetteVector,
    EntryVector,
    Product,
    Device,
    DeviceVector,
)
from moclo.core import __all__ as core_all  # noqa: E402
from moclo.core import modules as core_modules  # noqa: E402
from moclo.core import vectors as core_vectors  # noqa: E402
from moclo.core import parts as core_parts  # noqa: E402
from moclo.core._assembly import AssemblyManager  # noqa: E402
from moclo.kits import ytk, cidar, ecoflex, plant  # noqa: E402
from moclo.kits import moclo as ig  # noqa: E402

ROOT = "/tmp/agents8/C10"
LINES = []
COUNTS = collections.Counter()


def out(*args):
    LINES.append(" ".join(str(a) for a in args))


def scrub(text):
    text = re.sub(r"0x[0-9a-fA-F]+", "0x?", text)
    return text.replace(ROOT, "<root>")


# --- references ---------------------------------------------------------------


def make_ref(n, located=None):
    ref = Reference()
    ref.authors = "Author {0}, Coauthor {0}".format(n)
    ref.title = "Title of paper number {}".format(n)
    ref.journal = "J. Irreproducible Res. {}:1-{}".format(n, n + 10)
    ref.pubmed_id = str(1000 + n)
    if n % 3 == 0:
        ref.comment = "comment {}".format(n)
    if located is not None:
        ref.location = [FeatureLocation(0, located)]
    return ref


def ref_key(ref):
    if isinstance(ref, Reference):
        loc = ",".join(str(l) for l in ref.location)
        return "REF<{}|{}|{}|{}|{}|{}>".format(
            ref.title, ref.authors, ref.journal, ref.pubmed_id, ref.comment, loc
        )
    return "{}:{!r}".format(type(ref).__name__, ref)


# --- dumping ------------------------------------------------------------------


def dump_value(key, value):
    if key == "references" and isinstance(value, (list, tuple)):
        return "[" + "; ".join(ref_key(r) for r in value) + "]"
    return scrub(repr(value))


def dump_record(rec, tag):
    out("  <{}> {} id={!r} name={!r} desc={!r} len={}".format(
        tag, type(rec).__name__, rec.id, rec.name, rec.description, len(rec)))
    out("    seq", str(rec.seq))
    out("    dbxrefs", rec.dbxrefs, "letter", sorted(rec.letter_annotations))
    for key in rec.annotations:
        out("    ann", key, "=", dump_value(key, rec.annotations[key]))
    for feat in rec.features:
        quals = []
        for k, v in feat.qualifiers.items():
            if k == "citation":
                if isinstance(v, (list, tuple)):
                    v = type(v).__name__ + "[" + "; ".join(ref_key(x) if not isinstance(x, str) else x for x in v) + "]"
                else:
                    v = repr(v)
            else:
                v = scrub(repr(v))
            quals.append("{}={}".format(k, v))
        out("    feat", feat.type, str(feat.location), repr(feat.id), " | ".join(quals))


def aliasing(product, inputs):
    """Report whether the product shares mutable state with the inputs."""
    flags = []
    in_refs = [r for rec in inputs for r in rec.annotations.get("references", []) or []]
    pr_refs = product.annotations.get("references", [])
    flags.append(any(p is i for p in pr_refs for i in in_refs))
    in_quals = [f.qualifiers for rec in inputs for f in rec.features]
    flags.append(any(f.qualifiers is q for f in product.features for q in in_quals))
    in_cits = [q["citation"] for q in in_quals if "citation" in q]
    flags.append(
        any(f.qualifiers.get("citation") is c for f in product.features for c in in_cits)
    )
    flags.append(any(pr_refs is rec.annotations.get("references") for rec in inputs))
    return flags


def run(label, func, inputs=()):
    """Call func, record result / exception / warnings / state of inputs."""
    out("CASE", label)
    with warnings.catch_warnings(record=True) as caught:
        warnings.simplefilter("always")
        try:
            result = func()
        except Exception as exc:  # noqa
            result = None
            COUNTS[type(exc).__name__] += 1
            out("  raised", type(exc).__module__ + "." + type(exc).__name__, scrub(str(exc)))
            out("  cause", repr(exc.__cause__), "suppress", exc.__suppress_context__)
        else:
            COUNTS["ok"] += 1
            if isinstance(result, SeqRecord):
                dump_record(result, "product")
                if result.annotations.get("references"):
                    COUNTS["products with references"] += 1
                COUNTS["product citations"] += sum(
                    len(f.qualifiers.get("citation", ())) for f in result.features)
                out("  aliasing", aliasing(result, inputs))
            else:
                out("  result", scrub(repr(result)))
    for w in caught:
        COUNTS["warn:" + w.category.__name__] += 1
        out("  warning", w.category.__name__, scrub(str(w.message)))
    for i, rec in enumerate(inputs):
        dump_record(rec, "input{}".format(i))
    return result


# --- pattern expansion -------------------------------------------------------

IUPAC = {
    "A": "A", "C": "C", "G": "G", "T": "T", "B": "CGT", "D": "AGT", "H": "ACT",
    "K": "GT", "M": "AC", "N": "ACGT", "R": "AG", "S": "CG", "V": "ACG",
    "W": "AT", "Y": "CT",
}


def expand(pattern, rng, forced=None, star=(8, 40)):
    """Expand a DNA regex structure into a sequence.

    Returns the sequence and the (start, end) of every capture group.
    """
    forced = forced or {}
    seq = []
    spans = {}
    stack = []
    ngroups = 0
    used = collections.Counter()
    i = 0
    while i < len(pattern):
        c = pattern[i]
        if c == "(":
            ngroups += 1
            stack.append(ngroups)
            spans[ngroups] = [len(seq), None]
            i += 1
            continue
        if c == ")":
            g = stack.pop()
            spans[g][1] = len(seq)
            i += 1
            continue
        quant = None
        j = i + 1
        if j < len(pattern) and pattern[j] == "*":
            quant = "*"
            j += 1
            if j < len(pattern) and pattern[j] == "?":
                j += 1
        elif j < len(pattern) and pattern[j] == "?":
            quant = "?"
            j += 1
        if quant == "*":
            count = rng.randint(*star)
        elif quant == "?":
            count = rng.randint(0, 1)
        else:
            count = 1
        for _ in range(count):
            letter = rng.choice(IUPAC[c.upper()])
            if stack and stack[-1] in forced and quant is None:
                g = stack[-1]
                value = forced[g]
                k = used[g]
                if k < len(value) and value[k] in IUPAC.get(c.upper(), ""):
                    letter = value[k]
                used[g] += 1
            seq.append(letter)
        i = j
    return "".join(seq), {g: tuple(s) for g, s in spans.items()}


def random_dna(rng, n, avoid=()):
    """Random DNA avoiding some sites (and their reverse complements)."""
    avoid = [a.upper() for a in avoid]
    avoid += [str(Seq(a).reverse_complement()) for a in avoid]
    while True:
        s = "".join(rng.choice("ACGT") for _ in range(n))
        if not any(a in s for a in avoid):
            return s


def mixed_case(rng, s):
    if rng.random() < 0.5:
        return s
    a = rng.randrange(len(s))
    b = rng.randrange(a, len(s))
    return s[:a] + s[a:b].lower() + s[b:]


# --- plasmid construction ----------------------------------------------------


def build_plasmid(rng, cls, name, forced, refs, cite=True, rotate=True,
                  extra_site=False, record_type=CircularRecord, star=(8, 40)):
    """Build a plasmid following the structure of ``cls`` with cited features."""
    pattern = cls.structure()
    site = cls.cutter.site if cls.cutter is not NotImplemented else "GGTCTC"
    for _ in range(50):
        body, spans = expand(pattern, rng, forced, star)
        backbone = random_dna(rng, rng.randint(30, 90), [site])
        full = body + backbone
        # only the two sites of the structure
        doubled = (full + full[: len(site) - 1]).upper()
        rc = str(Seq(site).reverse_complement())
        n = sum(doubled.count(s) for s in {site, rc})
        if n == 2 or extra_site:
            break
    if extra_site:
        g = spans.get(2, (0, len(body)))
        mid = (g[0] + g[1]) // 2
        full = full[:mid] + site + full[mid:]
        spans = {k: (a if a <= mid else a + len(site), b if b <= mid else b + len(site))
                 for k, (a, b) in spans.items()}
        body = full[: len(body) + len(site)]
    full = mixed_case(rng, full)
    rec = CircularRecord(Seq(full), id=name, name=name, description="plasmid " + name)
    rec.annotations["topology"] = "circular"
    rec.annotations["molecule_type"] = "DNA"
    if refs is not None:
        rec.annotations["references"] = list(refs)
    nrefs = len(refs or ())

    def citation():
        kind = rng.random()
        if not cite or kind < 0.25:
            return None
        if kind < 0.32:
            return []
        if nrefs == 0:
            return None
        k = rng.choice([1, 1, 1, 2, 3])
        return ["[{}]".format(rng.randint(1, nrefs)) for _ in range(k)]

    def feature(start, end, label, strand=1, type_="misc_feature"):
        quals = collections.OrderedDict()
        quals["label"] = [label]
        c = citation()
        if c is not None:
            quals["citation"] = c
        if rng.random() < 0.3:
            quals["note"] = ["note of " + label]
        return SeqFeature(FeatureLocation(start, end, strand), type=type_, qualifiers=quals)

    L = len(full)
    inner = spans.get(2, (0, len(body)))
    feats = []
    # whole plasmid source feature
    if rng.random() < 0.6:
        feats.append(feature(0, L, name + "_src", type_="source"))
    # features inside the inner group
    for k in range(rng.randint(1, 3)):
        if inner[1] - inner[0] >= 2:
            a = rng.randint(inner[0], inner[1] - 1)
            b = rng.randint(a + 1, inner[1])
            feats.append(feature(a, b, "{}_in{}".format(name, k), rng.choice([1, -1])))
    # the full inner group
    if rng.random() < 0.5:
        feats.append(feature(inner[0], inner[1], name + "_inner", type_="CDS"))
    # features in the backbone
    for k in range(rng.randint(1, 3)):
        a = rng.randint(len(body), L - 1)
        b = rng.randint(a + 1, L)
        feats.append(feature(a, b, "{}_bb{}".format(name, k), rng.choice([1, -1])))
    # full backbone
    if rng.random() < 0.5:
        feats.append(feature(len(body), L, name + "_backbone", type_="rep_origin"))
    # features crossing the cuts
    if rng.random() < 0.7:
        feats.append(feature(max(0, inner[0] - 3), min(L, inner[0] + 5), name + "_cross5"))
    if rng.random() < 0.7:
        feats.append(feature(max(0, inner[1] - 4), min(L, inner[1] + 6), name + "_cross3"))
    # compound feature inside the inner group
    if rng.random() < 0.4 and inner[1] - inner[0] >= 8:
        m = (inner[0] + inner[1]) // 2
        loc = CompoundLocation([FeatureLocation(inner[0] + 1, m - 1, 1), FeatureLocation(m + 1, inner[1] - 1, 1)])
        f = feature(0, 1, name + "_join")
        f.location = loc
        feats.append(f)
    rng.shuffle(feats)
    rec.features = feats
    if rotate:
        rec = rec >> rng.randrange(L)
        if rng.random() < 0.3:
            # make sure the match wraps around the origin
            rec = rec << (len(body) // 2)
    if record_type is SeqRecord:
        rec = SeqRecord(rec.seq, id=rec.id, name=rec.name, description=rec.description,
                        features=rec.features, annotations=rec.annotations)
    return rec


def overhangs(rng, n, size):
    """n distinct overhangs, none the reverse complement of another (or itself)."""
    result = []
    while len(result) < n:
        o = "".join(rng.choice("ACGT") for _ in range(size))
        rc = str(Seq(o).reverse_complement())
        if o in result or rc in result or o == rc:
            continue
        result.append(o)
    return result


def ref_lists(rng, n_inputs, located_len=None):
    """Reference lists for several inputs, drawn from a shared pool."""
    lists = []
    for _ in range(n_inputs):
        kind = rng.random()
        if kind < 0.1:
            lists.append(None)
        elif kind < 0.2:
            lists.append([])
        else:
            k = rng.randint(1, 5)
            if rng.random() < 0.08:
                k = 12
            numbers = rng.sample(range(14), k)
            lists.append([make_ref(n) for n in numbers])
    return lists


# --- scenario: synthetic chains ---------------------------------------------


def make_classes(cutter):
    mod = type(str("Mod" + cutter.__name__), (AbstractModule,), {"cutter": cutter})
    vec = type(str("Vec" + cutter.__name__), (AbstractVector,), {"cutter": cutter})
    return mod, vec


def assemble_twice(label, vcls, vrec, mods, kwargs=None):
    """Assemble, again with the same wrappers, then with new wrappers."""
    kwargs = kwargs or {}
    inputs = [vrec] + [rec for _, rec in mods]

    def first():
        vector = vcls(vrec)
        wrapped = [c(r) for c, r in mods]
        state["vector"], state["mods"] = vector, wrapped
        return vector.assemble(*wrapped, **kwargs)

    def second():
        return state["vector"].assemble(*state["mods"], **kwargs)

    def third():
        vector = vcls(vrec)
        wrapped = [c(r) for c, r in reversed(mods)]
        return vector.assemble(*wrapped, **kwargs)

    state = {}
    r1 = run(label + " #1", first, inputs)
    if "vector" in state:
        run(label + " #2 same wrappers", second, inputs)
    run(label + " #3 new wrappers, reversed", third, inputs)
    return r1


def synthetic_chains(rng):
    cutters = [Restriction.BsaI, Restriction.BsmBI, Restriction.BpiI, Restriction.SapI,
               Restriction.BbsI, Restriction.Esp3I, Restriction.BtgZI]
    for n in range(90):
        cutter = cutters[n % len(cutters)]
        mcls, vcls = make_classes(cutter)
        size = len(cutter.ovhgseq)
        k = rng.choice([1, 1, 2, 2, 3])
        ovs = overhangs(rng, k + 2, size)
        refs = ref_lists(rng, k + 1)
        fault = rng.choice([None] * 6 + ["missing", "unused", "duplicate", "same", "illegal",
                                         "seqrecord_mod", "seqrecord_vec", "badcite", "norefs",
                                         "outofrange", "zero", "strcite", "tuplecite", "lastref",
                                         "dupref", "linear"])
        vforced = {1: ovs[0], 3: ovs[k]}
        if fault == "same":
            vforced = {1: ovs[0], 3: ovs[0]}
        vrec = build_plasmid(
            rng, vcls, "vec{}".format(n), vforced, refs[0],
            record_type=SeqRecord if fault == "seqrecord_vec" else CircularRecord)
        mods = []
        for j in range(k):
            rec = build_plasmid(
                rng, mcls, "mod{}_{}".format(n, j), {1: ovs[j], 3: ovs[j + 1]}, refs[j + 1],
                extra_site=(fault == "illegal" and j == 0),
                record_type=SeqRecord if (fault == "seqrecord_mod" and j == 0) else CircularRecord)
            mods.append((mcls, rec))
        if fault == "missing":
            mods.pop(rng.randrange(len(mods)))
        elif fault == "unused":
            rec = build_plasmid(rng, mcls, "extra{}".format(n), {1: ovs[k + 1], 3: ovs[0]}, [make_ref(13)])
            mods.append((mcls, rec))
        elif fault == "duplicate":
            rec = build_plasmid(rng, mcls, "dup{}".format(n), {1: ovs[0], 3: ovs[1]}, [make_ref(2)])
            mods.append((mcls, rec))
        elif fault in ("badcite", "outofrange", "zero", "strcite", "tuplecite", "lastref", "norefs", "dupref"):
            target = rng.choice([vrec] + [r for _, r in mods])
            feats = [f for f in target.features]
            f = rng.choice(feats)
            nrefs = len(target.annotations.get("references", []) or [])
            if fault == "badcite":
                f.qualifiers["citation"] = [rng.choice(["1", "[]", "[x]", "ref 1", "[1", "[1]x", "[ 1]", ""])]
            elif fault == "outofrange":
                f.qualifiers["citation"] = ["[{}]".format(nrefs + 1)]
            elif fault == "zero":
                f.qualifiers["citation"] = ["[0]"]
            elif fault == "strcite":
                f.qualifiers["citation"] = "[1]"
            elif fault == "tuplecite":
                f.qualifiers["citation"] = ("[1]",)
            elif fault == "lastref":
                if nrefs:
                    f.qualifiers["citation"] = ["[{}]".format(nrefs), "[1]", "[{}]".format(nrefs)]
            elif fault == "norefs":
                target.annotations.pop("references", None)
                f.qualifiers["citation"] = ["[1]"]
            elif fault == "dupref":
                target.annotations["references"] = [make_ref(4), make_ref(5), make_ref(4)]
                f.qualifiers["citation"] = ["[3]", "[2]"]
        elif fault == "linear":
            rec = mods[0][1]
            lin = SeqRecord(rec.seq, id=rec.id, name=rec.name, features=rec.features,
                            annotations=dict(rec.annotations, topology="linear"))
            mods[0] = (mcls, lin)
        kwargs = {}
        if rng.random() < 0.3:
            kwargs = {"id": "asm{}".format(n), "name": "ASM{}".format(n)}
        assemble_twice("chain {} {} k={} fault={}".format(n, cutter.__name__, k, fault),
                       vcls, vrec, mods, kwargs)


# --- scenario: parts with signatures, 3' overhang enzymes --------------------


def part_chains(rng):
    for n in range(40):
        cutter = [Restriction.BtsI, Restriction.BsaI, Restriction.BsrDI, Restriction.BpiI][n % 4]
        size = len(cutter.ovhgseq)
        k = rng.choice([1, 2, 3])
        ovs = overhangs(rng, k + 1, size)
        base = type(str("P{}".format(n)), (AbstractPart,), {"cutter": cutter})
        mbase = type(str("E{}".format(n)), (Entry,), {"cutter": cutter})
        vbase = type(str("V{}".format(n)), (CassetteVector,), {"cutter": cutter})
        refs = ref_lists(rng, k + 1)
        vcls = type(str("PV{}".format(n)), (base, vbase), {"signature": (ovs[k], ovs[0])})
        try:
            vrec = build_plasmid(rng, vcls, "pvec{}".format(n), None, refs[0])
        except Exception as exc:  # noqa
            out("part build failed", n, type(exc).__name__, scrub(str(exc)))
            continue
        mods = []
        for j in range(k):
            mcls = type(str("PM{}_{}".format(n, j)), (base, mbase), {"signature": (ovs[j], ovs[j + 1])})
            mods.append((mcls, build_plasmid(rng, mcls, "pmod{}_{}".format(n, j), None, refs[j + 1])))
        out("part structures", vcls.structure(), [m.structure() for m, _ in mods])
        assemble_twice("parts {} {} k={}".format(n, cutter.__name__, k), vcls, vrec, mods)
        # characterize through the abstract part
        run("characterize {}".format(n), lambda: type(base.characterize(mods[0][1])).__name__)


# --- scenario: every class of every kit --------------------------------------


def kit_classes():
    for kit in (ytk, cidar, ecoflex, ig, plant):
        for name, cls in sorted(vars(kit).items()):
            if inspect.isclass(cls) and issubclass(cls, (AbstractModule, AbstractVector, AbstractPart)):
                if cls.__module__ == kit.__name__:
                    yield kit, name, cls


def every_kit_class(rng):
    classes = list(kit_classes())
    for kit, name, cls in classes:
        label = "{}.{}".format(kit.__name__, name)
        # the MRO, as far as today's public classes are concerned
        public = set(core_all) | {"StructuredRecord", "object"}
        out("CLASS", label,
            [b.__name__ for b in cls.__mro__
             if b.__name__ in public or b.__module__.startswith("moclo.kits")],
            getattr(cls, "_level", "-"), getattr(cls, "cutter", "-"),
            getattr(cls, "signature", "-"))
        try:
            structure = cls.structure()
        except Exception as exc:  # noqa
            out("  structure raised", type(exc).__name__, scrub(str(exc)))
            continue
        out("  structure", structure)
        for variant in range(2):
            refs = ref_lists(rng, 1)[0]
            try:
                rec = build_plasmid(rng, cls, "{}_{}".format(name, variant), None, refs, star=(10, 30))
            except Exception as exc:  # noqa
                out("  build raised", type(exc).__name__, scrub(str(exc)))
                continue

            def probe():
                entity = cls(rec)
                res = [entity.is_valid()]
                for meth in ("overhang_start", "overhang_end"):
                    try:
                        res.append(str(getattr(entity, meth)()))
                    except Exception as exc:  # noqa
                        res.append(type(exc).__name__ + ":" + scrub(str(exc))[:80])
                return res

            run("probe {} {}".format(label, variant), probe, [rec])

            def target():
                return cls(rec).target_sequence()

            run("target {} {}".format(label, variant), target, [rec])
            if hasattr(cls, "placeholder_sequence"):
                run("placeholder {} {}".format(label, variant),
                    lambda: cls(rec).placeholder_sequence(), [rec])
    # vector x module pairs of each kit with the same enzyme: one-module assembly
    for kit in (ytk, cidar, ecoflex, ig, plant):
        mine = [(n, c) for k, n, c in classes if k is kit]
        vecs = [(n, c) for n, c in mine if issubclass(c, AbstractVector)]
        mods = [(n, c) for n, c in mine if issubclass(c, AbstractModule)]
        for vn, vc in vecs:
            for mn, mc in mods:
                if vc.cutter is not mc.cutter or vc.cutter is NotImplemented:
                    continue
                if rng.random() < 0.4:
                    continue
                try:
                    vc.structure(), mc.structure()
                except Exception:  # noqa
                    continue
                size = len(vc.cutter.ovhgseq)
                a, b = overhangs(rng, 2, size)
                refs = ref_lists(rng, 2)
                try:
                    # the module first: its structure may fix its overhangs
                    mrec = build_plasmid(rng, mc, "km_" + mn, {1: a, 3: b}, refs[1], star=(10, 30))
                    probe = mc(copy.deepcopy(mrec))
                    if probe.is_valid():
                        a, b = str(probe.overhang_start()).upper(), str(probe.overhang_end()).upper()
                    vrec = build_plasmid(rng, vc, "kv_" + vn, {1: a, 3: b}, refs[0], star=(10, 30))
                    probe = vc(copy.deepcopy(vrec))
                    if probe.is_valid():
                        # the structure of the vector may fix its overhangs too
                        va, vb = str(probe.overhang_end()).upper(), str(probe.overhang_start()).upper()
                        if (va, vb) != (a, b):
                            mrec = build_plasmid(rng, mc, "km_" + mn, {1: va, 3: vb}, refs[1], star=(10, 30))
                except Exception as exc:  # noqa
                    out("kit pair build failed", vn, mn, type(exc).__name__)
                    continue
                assemble_twice("kit {} {} x {}".format(kit.__name__, vn, mn), vc, vrec, [(mc, mrec)])


# --- scenario: registry plasmids with injected citations ---------------------


def inject(rng, rec, numbers):
    rec = copy.deepcopy(rec)
    rec.annotations["references"] = [make_ref(n) for n in numbers]
    for f in rec.features:
        if rng.random() < 0.5:
            k = rng.choice([1, 1, 2])
            f.qualifiers["citation"] = ["[{}]".format(rng.randint(1, len(numbers))) for _ in range(k)]
    return rec


def registries(rng):
    from moclo.registry.cidar import CIDARRegistry
    from moclo.registry.ytk import YTKRegistry, PTKRegistry
    from moclo.registry.ecoflex import EcoFlexRegistry
    from moclo.registry.plant import PlantRegistry

    for factory in (CIDARRegistry, YTKRegistry, PTKRegistry, EcoFlexRegistry, PlantRegistry):
        reg = factory()
        ids = sorted(reg)
        out("REGISTRY", factory.__name__, len(ids))
        for id_ in ids:
            item = reg[id_]
            out("  item", id_, type(item.entity).__name__, item.resistance, len(item.entity.record),
                sum(1 for f in item.entity.record.features if "citation" in f.qualifiers),
                len(item.entity.record.annotations.get("references", [])))
        # target sequence of some items, with injected citations
        for id_ in rng.sample(ids, 6):
            item = reg[id_]
            rec = inject(rng, item.entity.record, rng.sample(range(14), 3))
            cls = type(item.entity)
            run("registry target {} {}".format(factory.__name__, id_),
                lambda: cls(rec).target_sequence(), [rec])

    reg = CIDARRegistry()
    combos = [
        ("DVK_EF", ("J23102_EB", "BCD2_BC", "E1010m_CD", "B0015_DF")),
        ("DVK_AE", ("J23102_AB", "BCD2_BC", "E1010m_CD", "B0015_DE")),
        ("DVA_EF", ("J23102_EB", "BCD2_BC", "E1010m_CD", "B0015_DF")),
        ("DVA_AE", ("J23102_AB", "BCD2_BC", "E1010m_CD", "B0015_DE")),
        ("DVK_AE", ("J23102_AB", "BCD2_BC", "E1010m_CD")),
        ("DVK_AE", ("J23102_AB", "BCD2_BC", "E1010m_CD", "B0015_DE", "B0015_DF")),
    ]
    for n, (vid, mids) in enumerate(combos):
        for variant in range(2):
            vent = reg[vid].entity
            vrec = inject(rng, vent.record, rng.sample(range(14), rng.randint(1, 4)))
            mods = []
            for mid in mids:
                ent = reg[mid].entity
                mods.append((type(ent), inject(rng, ent.record, rng.sample(range(14), rng.randint(1, 4)))))
            assemble_twice("cidar {} {} v{}".format(n, vid, variant), type(vent), vrec, mods)

    # the YTK integration vector of the test suite
    path = os.path.join(ROOT, "tests", "data", "cases", "ytk_integration_vector.tar.xz")
    with tarfile.open(path, "r:xz") as tar:
        def read(name):
            member = [m for m in tar.getmembers() if m.name.endswith(name)][0]
            return io.StringIO(tar.extractfile(member).read().decode("ascii"))
        vec = CircularRecord(Bio.SeqIO.read(read("vector.fa"), "fasta"))
        mods = {r.id: CircularRecord(r) for r in Bio.SeqIO.parse(read("modules.fa"), "fasta")}
    types = {"pYTK008.gb": ytk.YTKPart1, "pYTK047.gb": ytk.YTKPart234r, "pYTK073.gb": ytk.YTKPart5,
             "pYTK074.gb": ytk.YTKPart6, "pYTK086.gb": ytk.YTKPart7, "pYTK092.gb": ytk.YTKPart8b}
    for variant in range(3):
        def cited(rec, tag):
            rec = copy.deepcopy(rec)
            L = len(rec)
            rec.annotations["references"] = [make_ref(n) for n in rng.sample(range(14), 3)]
            for k in range(6):
                a = rng.randrange(L - 50)
                f = SeqFeature(FeatureLocation(a, a + rng.randint(5, 50)), type="misc_feature",
                               qualifiers={"label": ["{}_{}".format(tag, k)],
                                           "citation": ["[{}]".format(rng.randint(1, 3))]})
                rec.features.append(f)
            return rec
        vrec = cited(vec, "v")
        pairs = [(types[k], cited(mods[k], k)) for k in sorted(mods)]
        assemble_twice("ytk integration v{}".format(variant), ytk.YTKPart8a, vrec, pairs)


# --- scenario: the manager and the helpers used directly ---------------------


def direct(rng):
    mcls, vcls = make_classes(Restriction.BsaI)
    ovs = overhangs(rng, 3, 4)
    refs = ref_lists(rng, 3)
    vrec = build_plasmid(rng, vcls, "dvec", {1: ovs[0], 3: ovs[2]}, [make_ref(1), make_ref(2)])
    m1 = build_plasmid(rng, mcls, "dm1", {1: ovs[0], 3: ovs[1]}, [make_ref(2), make_ref(3)])
    m2 = build_plasmid(rng, mcls, "dm2", {1: ovs[1], 3: ovs[2]}, [make_ref(3), make_ref(1), make_ref(7)])
    inputs = [vrec, m1, m2]

    def manager():
        mgr = AssemblyManager(vcls(vrec), [mcls(m1), mcls(m2)], id_="direct", name="DIRECT")
        out("  manager attrs", mgr.id, mgr.name, len(mgr.modules), len(mgr.elements),
            mgr.elements[-1] is mgr.vector, mgr._CITATION_RX.pattern)
        return mgr.assemble()

    run("direct manager", manager, inputs)
    run("direct manager again", manager, inputs)

    # errors hierarchy and messages
    for exc in (
        errors.InvalidSequence("ACGT"), errors.InvalidSequence("ACGT", details="some details"),
        errors.IllegalSite("ACGT"), errors.MissingModule("ACGT"),
        errors.MissingModule("ACGT", details="d"),
        errors.DuplicateModules(mcls(m1), mcls(m2), details="x"),
        errors.DuplicateModules(mcls(m1)),
        errors.UnusedModules(mcls(m1), mcls(m2)),
        errors.UnusedModules(mcls(m1), details=3),
    ):
        out("error", type(exc).__name__, [c.__name__ for c in type(exc).__mro__], scrub(str(exc)))

    # abstract classes refuse to be instantiated / declare no structure
    for cls in (AbstractModule, AbstractVector, AbstractPart, Entry, Cassette, Device, Product,
                EntryVector, CassetteVector, DeviceVector):
        run("abstract {}".format(cls.__name__), lambda: cls(m1))
        run("abstract structure {}".format(cls.__name__), lambda: cls.structure())
    blunt = type(str("Blunt"), (AbstractModule,), {"cutter": Restriction.EcoRV})
    run("blunt cutter", lambda: blunt(m1))
    unknown = type(str("Unknown"), (AbstractVector,), {"cutter": Restriction.AjuI})
    run("odd cutter", lambda: unknown(m1))
    for cutter in (Restriction.BsaI, Restriction.BtsI, Restriction.SapI, Restriction.EcoRI):
        m, v = make_classes(cutter)
        run("structure module {}".format(cutter.__name__), m.structure)
        run("structure vector {}".format(cutter.__name__), v.structure)
        run("regex module {}".format(cutter.__name__), lambda: m._get_regex().pattern)
        run("regex vector {}".format(cutter.__name__), lambda: v._get_regex().pattern)
    # names still importable from where they were
    for module, names in (
        (core_modules, ["AbstractModule", "Product", "Entry", "Cassette", "Device", "StructuredRecord",
                        "cutter_check", "add_as_source"]),
        (core_vectors, ["AbstractVector", "EntryVector", "CassetteVector", "DeviceVector",
                        "StructuredRecord", "AssemblyManager", "cutter_check", "add_as_source"]),
        (core_parts, ["AbstractPart", "AbstractModule", "AbstractVector", "StructuredRecord", "cutter_check"]),
    ):
        out("names", module.__name__, [(n, hasattr(module, n)) for n in names])
    out("levels", [(c.__name__, c._level) for c in (Product, Entry, Cassette, Device, EntryVector,
                                                    CassetteVector, DeviceVector, AbstractModule, AbstractVector)])


def helpers(rng):
    """The supporting functions, used directly."""
    from moclo.core._utils import cutter_check, add_as_source
    from moclo.regex import DNARegex, SeqMatch

    mcls, vcls = make_classes(Restriction.BpiI)
    ovs = overhangs(rng, 3, 4)
    vrec = build_plasmid(rng, vcls, "hvec", {1: ovs[0], 3: ovs[2]}, [make_ref(1), make_ref(2)])
    m1 = build_plasmid(rng, mcls, "hm1", {1: ovs[0], 3: ovs[1]}, [make_ref(2), make_ref(3)])
    m2 = build_plasmid(rng, mcls, "hm2", {1: ovs[1], 3: ovs[2]}, [make_ref(3), make_ref(1), make_ref(7)])

    # add_as_source
    for n, loc in enumerate([None, FeatureLocation(2, 10), FeatureLocation(5, 5), FeatureLocation(0, 0, -1),
                             CompoundLocation([FeatureLocation(1, 3), FeatureLocation(6, 9)])]):
        dst = SeqRecord(Seq("ACGTACGTACGTAAC"), id="dst{}".format(n))
        res = run("add_as_source {}".format(n), lambda: add_as_source(m1, dst, loc), [dst])
        out("  same object", res is dst)
    run("add_as_source no id", lambda: add_as_source(object(), SeqRecord(Seq("ACGT"))))
    run("add_as_source no len", lambda: add_as_source(m1, object()))

    # cutter_check
    for cutter in (NotImplemented, Restriction.EcoRV, Restriction.BsaI, Restriction.BtsI,
                   Restriction.EcoRI, Restriction.AjuI, None):
        run("cutter_check {}".format(cutter), lambda: cutter_check(cutter, "Name"))

    # DNARegex
    out("lettermap", sorted(DNARegex._lettermap.items()), len(DNARegex._lettermap),
        "N" in DNARegex._lettermap, DNARegex._lettermap.get("A"), DNARegex._lettermap["Y"])
    for pattern in ("GGTCTCN(NNNN)", "ANRY(N*)BDHKMSVW", "acgtn", ""):
        run("transcribe {!r}".format(pattern), lambda: DNARegex._transcribe(pattern))
    rx = DNARegex("GGTCTCN(NNNN)(NN*N)")
    lin = SeqRecord(Seq("TTGGTCTCAACGTTTTTTTT"), id="lin")
    circ = CircularRecord(Seq("CGTTTTTTTTTTGGTCTCAA"), id="circ")
    for label, target, kw in (
        ("seq", lin.seq, {}), ("record", lin, {}), ("circular", circ, {}),
        ("record as circular", SeqRecord(circ.seq, id="x"), {"linear": False}),
        ("pos", lin, {"pos": 3}), ("endpos", lin, {"endpos": 1}), ("str", "GGTCTCAACGT", {}),
        ("lower", SeqRecord(Seq("ttggtctcaacgtttttttt"), id="low"), {}),
    ):
        def search():
            m = rx.search(target, **kw)
            if m is None:
                return None
            return [m.start(), m.end(), m.span(1), m.span(2), str(getattr(m.group(1), "seq", m.group(1))),
                    str(getattr(m.group(2), "seq", m.group(2))), type(m).__name__, m.shift]
        run("regex search {}".format(label), search)

    # the manager
    run("manager tuple", lambda: AssemblyManager(vcls(vrec), (mcls(m1), mcls(m2))))
    run("manager no modules", lambda: AssemblyManager(vcls(vrec), []).assemble(), [vrec])

    def manager_state():
        mods = [mcls(m1), mcls(m2)]
        mgr = AssemblyManager(vcls(vrec), mods)
        modmap = mgr._generate_modules_map()
        return [mgr.modules == mods, [type(e).__name__ for e in mgr.elements], mgr.elements[-1] is mgr.vector,
                sorted(str(k) for k in modmap), type(mgr.modules).__name__, type(mgr.elements).__name__,
                [e.record.id for e in mgr.elements]]
    run("manager state", manager_state)

    def round_trip():
        mgr = AssemblyManager(vcls(vrec), [mcls(m1)])
        mgr._deref_citations(m2)
        dump_record(m2, "dereferenced")
        mgr._ref_citations(m2)
        return None
    run("citation round trip", round_trip, [m2])

    def unused_warning_is_error():
        extra = build_plasmid(rng, mcls, "hextra", {1: "AAAA", 3: "CCCC"}, [make_ref(9)])
        with warnings.catch_warnings():
            warnings.simplefilter("error")
            return vcls(vrec).assemble(mcls(m1), mcls(m2), mcls(extra))
    run("unused as error", unused_warning_is_error, [vrec, m1, m2])
    run("after unused as error", lambda: vcls(vrec).assemble(mcls(m1), mcls(m2)), [vrec, m1, m2])


def main():
    rng = random.Random(20260927)
    synthetic_chains(rng)
    part_chains(rng)
    every_kit_class(rng)
    registries(rng)
    direct(rng)
    helpers(rng)
    text = "\n".join(LINES)
    if "--dump" in sys.argv:
        print(text)
    print("cases:", sum(1 for l in LINES if l.startswith("CASE")))
    print("outcomes:", sorted(COUNTS.items()))
    print("lines:", len(LINES))
    print("digest:", hashlib.sha256(text.encode("utf-8")).hexdigest())


if __name__ == "__main__":
    main()
