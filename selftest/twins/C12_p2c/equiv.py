"""Differential test: prints a digest of everything observable on a few hundred generated inputs."""
import sys, random, warnings, hashlib, copy
sys.path.insert(0, "/tmp/agents5/C12"); import tests  # noqa
from Bio import Restriction as R
from Bio.Seq import Seq
from Bio.SeqRecord import SeqRecord
from Bio.SeqFeature import SeqFeature, FeatureLocation, CompoundLocation, Reference
from moclo.record import CircularRecord
from moclo.regex import DNARegex
from moclo.core import AbstractModule, AbstractVector, AbstractPart, Entry, EntryVector
from moclo import errors

ENZ5 = ["BsaI", "BsmBI", "BpiI", "SapI", "BtgZI", "FokI", "BsmAI", "EarI", "HgaI", "BbvI", "BfuAI", "AarI", "BceAI", "FauI", "BssSI"]
ENZ_OTHER = ["BtsI", "BsrDI", "EcoRV", "EcoRI", "PstI", "BsgI", "AcuI", "BseRI"]

LINES = []
import re
_ADDR = re.compile(r"0x[0-9a-fA-F]+")
def out(*a):
    LINES.append(_ADDR.sub("0x?", " | ".join(str(x) for x in a)))

def rc(s): return str(Seq(s).reverse_complement())
def rnd(rng, n): return "".join(rng.choice("ACGT") for _ in range(n))
def mixcase(rng, s): return "".join(c.lower() if rng.random() < 0.5 else c for c in s)

def mk(cls, e, **kw):
    d = {"cutter": getattr(R, e)}; d.update(kw)
    return type(str(cls.__name__ + e), (cls,), d)

def nsites(seq, e):
    site = getattr(R, e).site
    d = (seq + seq[:len(site) - 1]).upper(); c = 0
    for s in {site, rc(site)}:
        i = d.find(s)
        while i != -1:
            c += 1; i = d.find(s, i + 1)
    return c

def flank(e):
    el = getattr(R, e).elucidate(); site = getattr(R, e).site
    return site, el.index("^") - len(site), el.index("_") - el.index("^") - 1

def build_module(rng, e, o1, o2, body_len, pad, want=2):
    site, gap, ov = flank(e)
    while True:
        s = site + rnd(rng, gap) + o1 + rnd(rng, body_len) + o2 + rnd(rng, gap) + rc(site) + rnd(rng, pad)
        if nsites(s, e) == want: return s

def build_vector(rng, e, o_start, o_end, ph_len, bb_len):
    site, gap, ov = flank(e)
    while True:
        s = o_end + rnd(rng, gap) + rc(site) + rnd(rng, ph_len) + site + rnd(rng, gap) + o_start + rnd(rng, bb_len)
        if nsites(s, e) == 2: return s

def ovh(rng, n, used):
    while True:
        o = rnd(rng, n)
        if o != rc(o) and o not in used and rc(o) not in used:
            used.add(o); return o

def ser_loc(loc):
    return repr(loc)

def ser_ref(r):
    if isinstance(r, Reference):
        return "Ref(%s;%s;%s)" % (r.title, r.authors, r.location)
    return repr(r)

def ser_rec(rec):
    if rec is None: return "None"
    ann = []
    for k in sorted(rec.annotations):
        v = rec.annotations[k]
        if k == "references": v = [ser_ref(x) for x in v]
        ann.append((k, v))
    feats = []
    for f in rec.features:
        q = []
        for k in sorted(f.qualifiers):
            v = f.qualifiers[k]
            if k == "citation": v = [ser_ref(x) for x in v]
            q.append((k, v))
        feats.append((f.type, ser_loc(f.location), f.id, q))
    return repr((type(rec).__name__, str(rec.seq), rec.id, rec.name, rec.description,
                 list(rec.dbxrefs), list(rec.annotations), ann, feats, sorted(rec.letter_annotations.items())))

def attempt(label, fn, *states):
    """Run fn, record result / exception / warnings, then the state of the given records."""
    with warnings.catch_warnings(record=True) as caught:
        warnings.simplefilter("always")
        try:
            res = fn()
            if isinstance(res, SeqRecord): res = ser_rec(res)
            elif isinstance(res, Seq): res = "Seq:" + str(res)
            out(label, "OK", res)
        except Exception as exc:  # noqa
            out(label, "EXC", type(exc).__name__, str(exc), repr(getattr(exc, "__cause__", None)), getattr(exc, "__suppress_context__", None))
    for w in caught:
        out(label, "WARN", w.category.__name__, str(w.message))
    for st in states:
        out(label, "STATE", ser_rec(st))

def rand_features(rng, n, refs=0, allow_none=False):
    feats = []
    for _ in range(rng.randint(0, 4)):
        kind = rng.random()
        a = rng.randrange(n); b = rng.randrange(n)
        a, b = min(a, b), max(a, b) + 1
        strand = rng.choice([1, -1, None])
        if kind < 0.6:
            loc = FeatureLocation(a, b, strand=strand)
        elif kind < 0.8 and n > 6:
            m = rng.randrange(1, n - 1)
            loc = CompoundLocation([FeatureLocation(m, n, strand=strand), FeatureLocation(0, rng.randrange(1, m + 1), strand=strand)])
        elif kind < 0.9:
            loc = FeatureLocation(0, n, strand=strand)
        elif allow_none:
            loc = None
        else:
            loc = FeatureLocation(a, b, strand=strand)
        ftype = rng.choice(["CDS", "promoter", "source", "misc_feature"])
        q = {"label": ["f%d" % rng.randrange(100)]}
        if refs and rng.random() < 0.6:
            q["citation"] = ["[%d]" % rng.randint(1, refs) for _ in range(rng.randint(1, 2))]
        feats.append(SeqFeature(loc, type=ftype, id="id%d" % rng.randrange(10), qualifiers=q))
    if rng.random() < 0.4:
        feats.append(SeqFeature(FeatureLocation(0, n), type="source", qualifiers={"organism": ["x"]}))
    return feats

def make_refs(rng, k, tag):
    refs = []
    for i in range(k):
        r = Reference(); r.title = "%s-title-%d" % (tag, i if rng.random() < 0.7 else 0); r.authors = "A%d" % i
        refs.append(r)
    return refs

def decorate(rng, seq, rid, circ=True, with_refs=False, topo=None, allow_none=False):
    n = len(seq)
    ann = {}
    if topo is not None: ann["topology"] = topo
    if rng.random() < 0.5: ann["molecule_type"] = "DNA"
    nref = 0
    if with_refs:
        nref = rng.randint(1, 3); ann["references"] = make_refs(rng, nref, rid)
    la = {}
    if rng.random() < 0.3: la["phred_quality"] = [rng.randrange(40) for _ in range(n)]
    rec = SeqRecord(Seq(seq), id=rid, name=rid + "_n", description="d " + rid, dbxrefs=["X:1"] if rng.random() < 0.3 else [],
                    features=rand_features(rng, n, nref, allow_none), annotations=ann, letter_annotations=la)
    return CircularRecord(rec) if circ else rec

# ---------------------------------------------------------------- structure strings
def section_structures():
    for e in ENZ5 + ENZ_OTHER:
        for base in (AbstractModule, AbstractVector):
            attempt("structure %s %s" % (base.__name__, e), lambda: mk(base, e).structure())
            attempt("regex %s %s" % (base.__name__, e), lambda: mk(base, e)._get_regex().pattern)
    for e in ["BsaI", "BsmBI", "BpiI", "SapI"]:
        n = flank(e)[2]
        for base in (Entry, EntryVector):
            cls = type(str("P" + e), (AbstractPart, base), {"cutter": getattr(R, e), "signature": ("A" * n, "C" * n)})
            attempt("part %s %s" % (base.__name__, e), cls.structure)
    attempt("nocutter", lambda: AbstractModule(SeqRecord(Seq("A"))))
    attempt("nocutter v", lambda: AbstractVector(SeqRecord(Seq("A"))))
    attempt("blunt", lambda: mk(AbstractModule, "EcoRV")(SeqRecord(Seq("A"))))
    attempt("blunt v", lambda: mk(AbstractVector, "EcoRV")(SeqRecord(Seq("A"))))

# ---------------------------------------------------------------- structured records
def probe(label, obj, rec):
    attempt(label + " valid", obj.is_valid, rec)
    attempt(label + " ostart", obj.overhang_start)
    attempt(label + " oend", obj.overhang_end)
    attempt(label + " target", obj.target_sequence, rec)
    if hasattr(obj, "placeholder_sequence"):
        attempt(label + " placeholder", obj.placeholder_sequence, rec)

def section_records(rng):
    for it in range(40):
        e = rng.choice(ENZ5[:-1])
        site, gap, ov = flank(e)
        M = mk(AbstractModule, e); V = mk(AbstractVector, e)
        used = set(); o1, o2 = ovh(rng, ov, used), ovh(rng, ov, used)
        ms = build_module(rng, e, o1, o2, rng.randint(2, 10), rng.randint(0, 12))
        vs = build_vector(rng, e, o1, o2, rng.randint(0, 8), rng.randint(2, 15))
        if it % 3 == 0: ms, vs = mixcase(rng, ms), mixcase(rng, vs)
        for cls, s, tag in ((M, ms, "m"), (V, vs, "v")):
            rec = decorate(rng, s, "%s%d" % (tag, it))
            n = len(rec)
            rots = sorted(set([0, 1, n - 1] + [rng.randrange(n) for _ in range(4)]))
            for r in rots:
                rr = rec >> r
                probe("rec %d %s %s rot%d" % (it, e, tag, r), cls(rr), rr)
                rcr = rr.reverse_complement()
                probe("rec %d %s %s rot%d rc" % (it, e, tag, r), cls(rcr), rcr)
            # plain SeqRecord, with and without topology
            for topo in (None, "circular", "linear", "Circular"):
                r = rng.randrange(n)
                plain = decorate(rng, s[r:] + s[:r], "p%s%d" % (tag, it), circ=False, topo=topo)
                probe("plain %d %s %s %s rot%d" % (it, e, tag, topo, r), cls(plain), plain)
                prc = plain.reverse_complement()
                probe("plain %d %s %s %s rot%d rc" % (it, e, tag, topo, r), cls(prc), prc)
        # extra site -> IllegalSite, missing site -> invalid
        bad = build_module(rng, e, o1, o2, 4, 3)
        extra = bad[:len(site) + gap + ov + 2] + site + bad[len(site) + gap + ov + 2:]
        rec = decorate(rng, extra, "x%d" % it)
        probe("extra %d %s" % (it, e), M(rec), rec)
        rec = decorate(rng, ms.upper().replace(site, "A" * len(site), 1), "y%d" % it)
        probe("nosite %d %s" % (it, e), M(rec), rec)
        probe("m-as-v %d %s" % (it, e), V(rec), rec)
    # inside cutter
    M = mk(AbstractModule, "BssSI"); V = mk(AbstractVector, "BssSI")
    for s in ["CACGAGTTTTTTCTCGTGAAAA", "AACTCGTGTTTTTCACGAGCC", "cacgagttttttctcgtgaaaa"]:
        rec = CircularRecord(Seq(s), id="b")
        for r in range(len(s)):
            probe("BssSI m %s %d" % (s, r), M(rec >> r), rec)
            probe("BssSI v %s %d" % (s, r), V(rec >> r), rec)

# ---------------------------------------------------------------- assemblies
def section_assemblies(rng):
    for it in range(60):
        e = rng.choice(ENZ5[:-1])
        site, gap, ov = flank(e)
        M = mk(AbstractModule, e); V = mk(AbstractVector, e)
        k = rng.randint(1, 3); used = set()
        os_ = [ovh(rng, ov, used) for _ in range(k + 1)]
        scenario = rng.choice(["ok", "ok", "ok", "mixed", "mixed", "dup", "rcdup", "missing", "unused", "closed", "palin", "plainvec", "lowerend"])
        if scenario == "closed": os_[k] = os_[0]
        if scenario == "rcdup" and k >= 2: os_[1] = rc(os_[0])
        if scenario == "palin" and ov % 2 == 0:
            half = rnd(rng, ov // 2); os_[0] = half + rc(half)
        mods = [build_module(rng, e, os_[i], os_[i + 1], rng.randint(2, 10), rng.randint(0, 12)) for i in range(k)]
        vec = build_vector(rng, e, os_[k], os_[0], rng.randint(0, 8), rng.randint(2, 15))
        if scenario == "dup": mods.append(build_module(rng, e, os_[0], ovh(rng, ov, used), 5, 3))
        if scenario == "missing": mods.pop(rng.randrange(len(mods)))
        if scenario == "unused": mods.append(build_module(rng, e, ovh(rng, ov, used), ovh(rng, ov, used), 5, 3))
        if scenario == "mixed": mods = [mixcase(rng, m) for m in mods]; vec = mixcase(rng, vec)
        if scenario == "lowerend":
            mods = [m[:len(m) // 2].upper() + m[len(m) // 2:].lower() for m in mods]
        recs = [decorate(rng, m, "mod%d_%d" % (it, i), with_refs=rng.random() < 0.5) for i, m in enumerate(mods)]
        vrec = decorate(rng, vec, "vec%d" % it, circ=scenario != "plainvec", with_refs=rng.random() < 0.5)
        recs = [r >> rng.randrange(len(r)) for r in recs]
        if scenario != "plainvec": vrec = vrec >> rng.randrange(len(vrec))
        rng.shuffle(recs)
        kw = rng.choice([{}, {"id": "I%d" % it}, {"name": "N%d" % it, "id": "J"}])
        for strand in ("fwd", "rev"):
            if strand == "rev":
                recs = [r.reverse_complement(id=True, name=True, annotations="references" in r.annotations or rng.random() < 0.5) for r in recs]
                vrec = vrec.reverse_complement(id=True, annotations=True)
            if not recs:
                out("asm %d" % it, "no modules"); continue
            label = "asm %d %s %s %s" % (it, e, scenario, strand)
            attempt(label, lambda: V(vrec).assemble(*[M(r) for r in recs], **kw), vrec, *recs)
    # invalid citation
    e = "BsaI"; M = mk(AbstractModule, e); V = mk(AbstractVector, e)
    m = CircularRecord(Seq(build_module(rng, e, "AATG", "GCTT", 6, 4)), id="m")
    v = CircularRecord(Seq(build_vector(rng, e, "GCTT", "AATG", 3, 8)), id="v")
    m.features.append(SeqFeature(FeatureLocation(0, 3), type="CDS", qualifiers={"citation": ["nope"]}))
    attempt("badcite", lambda: V(v).assemble(M(m)), v, m)
    m2 = CircularRecord(Seq(build_module(rng, e, "AATG", "GCTT", 6, 4)), id="m2")
    m2.features.append(SeqFeature(FeatureLocation(0, 3), type="CDS", qualifiers={"citation": ["[3]"]}))
    attempt("badcite index", lambda: V(v).assemble(M(m2)), v, m2)
    attempt("invalid module", lambda: V(v).assemble(M(CircularRecord(Seq("ACGTACGTACGT"), id="junk"))), v)

# ---------------------------------------------------------------- regex and record level
def section_regex(rng):
    pats = ["AA(NN)", "(GG)(N*)(CC)", "GGTCTCN(NNNN)(NN*N)(NNNN)NGAGACC", "N(NNNN)(NGAGACCN*GGTCTCN)(NNNN)N", "(A)|(C)", "RY(W*)S", "T(K)(M)B(D)H(V)"]
    for it in range(120):
        p = rng.choice(pats); n = rng.randint(4, 40)
        s = rnd(rng, n)
        if rng.random() < 0.5 and n > 30:
            body = "GGTCTCA" + rnd(rng, 4) + rnd(rng, 5) + rnd(rng, 4) + "AGAGACC" if rng.random() < 0.5 else rnd(rng, 5) + "AGAGACC" + rnd(rng, 3) + "GGTCTCA" + rnd(rng, 5)
            s = (body + rnd(rng, n))[:max(n, len(body) + 2)]
            r = rng.randrange(len(s)); s = s[r:] + s[:r]
        if rng.random() < 0.3: s = mixcase(rng, s)
        kind = rng.choice(["seq", "rec", "circ"])
        obj = Seq(s) if kind == "seq" else SeqRecord(Seq(s), id="r") if kind == "rec" else CircularRecord(Seq(s), id="c")
        kw = rng.choice([{}, {"linear": False}, {"linear": True}, {"pos": rng.randrange(len(s))}, {"endpos": rng.randrange(len(s) + 2)}, {"pos": 2, "endpos": len(s) - 1, "linear": False}])
        label = "regex %d %s %s %s %r" % (it, p, s, kind, sorted(kw.items()))
        try:
            m = DNARegex(p).search(obj, **kw)
        except Exception as exc:  # noqa
            out(label, "EXC", type(exc).__name__, str(exc)); continue
        if m is None:
            out(label, "None"); continue
        out(label, m.start(), m.end(), m.shift, m.rec is obj)
        for g in range(m.match.re.groups + 1):
            out(label, "span", g, m.span(g))
            attempt(label + " group %d" % g, lambda: m.group(g))
    attempt("regex type", lambda: DNARegex("NN").search("ATGC"))
    attempt("regex type list", lambda: DNARegex("NN").search(["A"]))
    out("transcribe", DNARegex._transcribe("ABCDGHKMNRSTVWY(^_)*nx"), DNARegex("ACGTN").pattern, DNARegex("ACGTN").regex.pattern, DNARegex("ACGTN").regex.flags)

def section_circular(rng):
    for it in range(80):
        n = rng.randint(3, 30)
        rec = decorate(rng, rnd(rng, n), "c%d" % it, with_refs=rng.random() < 0.3, allow_none=it % 4 == 0)
        before = ser_rec(rec)
        for sh in [0, 1, -1, n, n - 1, rng.randint(-3 * n, 3 * n)]:
            attempt("shift %d >> %d" % (it, sh), lambda: rec >> sh)
            attempt("shift %d << %d" % (it, sh), lambda: rec << sh)
        x = rec >> rng.randrange(n)
        out("shift identity", it, (rec >> 0) is rec, (rec << n) is rec, x.features is rec.features, x.annotations is rec.annotations, x.dbxrefs is rec.dbxrefs,
            [a.qualifiers is b.qualifiers for a, b in zip(x.features, rec.features)])
        for kw in [{}, {"id": True}, {"id": "new", "name": True, "description": "dd"}, {"features": False}, {"annotations": True, "dbxrefs": True},
                   {"letter_annotations": False}, {"annotations": {"topology": "circular", "k": 1}}, {"annotations": {"topology": "linear"}}]:
            attempt("revcomp %d %r" % (it, sorted(kw.items(), key=str)), lambda: rec.reverse_complement(**kw))
        a, b = sorted([rng.randrange(n + 1), rng.randrange(n + 1)])
        attempt("slice %d" % it, lambda: rec[a:b])
        attempt("item %d" % it, lambda: rec[rng.randrange(n)])
        out("contains", it, str(rec.seq)[-2:] + str(rec.seq)[:1] in rec, "ACGTACGTAC" in rec, str(rec.seq) * 2 in rec)
        attempt("add %d" % it, lambda: rec + rec)
        attempt("radd %d" % it, lambda: "A" + rec)
        out("unchanged", it, ser_rec(rec) == before)
    attempt("linear circ", lambda: CircularRecord(SeqRecord(Seq("ACGT"), annotations={"topology": "linear"})))
    attempt("LINEAR circ", lambda: CircularRecord(Seq("ACGT"), annotations={"topology": "Circular"}))

def main():
    rng = random.Random(20260927)
    section_structures()
    section_records(rng)
    section_assemblies(rng)
    section_regex(rng)
    section_circular(rng)
    blob = "\n".join(LINES).encode("utf-8")
    kinds = {}
    for l in LINES:
        parts = l.split(" | ")
        k = parts[1] if len(parts) > 1 else "?"
        if k == "EXC": k = "EXC:" + parts[2]
        kinds[k] = kinds.get(k, 0) + 1
    print("lines:", len(LINES))
    for k in sorted(kinds):
        if k in ("OK", "STATE", "WARN", "None") or k.startswith("EXC:"):
            print("  %-28s %d" % (k, kinds[k]))
    print("DIGEST", hashlib.sha256(blob).hexdigest())
    if len(sys.argv) > 1:
        open(sys.argv[1], "wb").write(blob)

main()
