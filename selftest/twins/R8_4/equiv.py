# Differential test for R8_4: YTKRegistry._load_entity (type hint stored in the record comments)
import sys
sys.path.insert(0, "/tmp/agentsR/R8")
import tests  # noqa: F401  (splices the kit packages into the moclo namespace)

import hashlib
import os
import random
import warnings

warnings.simplefilter("ignore")

from Bio.Seq import Seq
from Bio.SeqRecord import SeqRecord

from moclo.record import CircularRecord
from moclo.registry import base
from moclo.registry.ytk import YTKRegistry, PTKRegistry


def ensure(kit, *archives):
    from tests._utils import build_registries
    root = "/tmp/agentsR/R8/moclo-{0}/moclo/registry".format(kit)
    if not all(os.path.exists(os.path.join(root, a)) for a in archives):
        build_registries(kit)


def outcome(func, *args):
    try:
        return ("ok", func(*args))
    except BaseException as err:  # noqa
        return (
            "err",
            type(err).__name__,
            str(err),
            type(err.__cause__).__name__,
            type(err.__context__).__name__,
            err.__suppress_context__,
        )


TYPES = list(YTKRegistry._types)
NOISE = [
    "", " ", "some note", "YTK", "ytk:1", " YTK:1", "\tYTK:2", "XYTK:3", "YTK :4", "PTK:1", "note: YTK:1",
    "Assembled with YTK:5", "ApEinfo:methylated:1", "YTK:", "YTK: ", "YTK::1", "YTK:9", "YTK:3A", "YTK:1 ",
    "YTK: 1", "YTK:cassette vector ", "YTK:entry vector\t", "YTK:3:a", "YTK:234r", "YTK:8a:YTK:8b",
]
SEPARATORS = ["\n", "\n", "\n", "\r\n", "\r", "\x0b", "\x0c", "\x1c", "\x85", " ", "\n\n"]


def make_comment(rng):
    lines = []
    for _ in range(rng.choice([0, 1, 1, 2, 2, 3, 4, 6])):
        roll = rng.random()
        if roll < 0.45:
            lines.append("YTK:" + rng.choice(TYPES) + rng.choice(["", "", "", " ", "  \t"]))
        else:
            lines.append(rng.choice(NOISE))
    if rng.random() < 0.2 and lines:
        lines.append(rng.choice(lines))  # duplicated line (possibly the hint itself)
    text = ""
    for line in lines:
        text += line + rng.choice(SEPARATORS)
    if rng.random() < 0.5:
        text = text.rstrip("\n")
    return text


def make_record(rng, index, comment):
    length = rng.randint(10, 80)
    rec = SeqRecord(Seq("".join(rng.choice("ATGC") for _ in range(length))), id="r{}".format(index),
                    name="r{}".format(index))
    rec.annotations["molecule_type"] = "DNA"
    if comment is not None:
        rec.annotations["comment"] = comment
    if rng.random() < 0.5:
        rec = CircularRecord(rec)
    return rec


def load(registry, record):
    before = record.annotations.get("comment")
    result = outcome(registry._load_entity, record)
    if result[0] == "ok":
        entity = result[1]
        result = ("ok", type(entity).__name__, entity.record is record)
    return (before, result, record.annotations.get("comment"), sorted(record.annotations))


def main():
    ensure("ytk", "ytk.tar.gz", "ptk.tar.gz")
    rng = random.Random(8004)
    results = []
    registries = [YTKRegistry(), PTKRegistry()]

    comments = [make_comment(rng) for _ in range(1500)]
    comments += [None, "", "YTK:1", "YTK:1\n", "\nYTK:1", "YTK:1\nYTK:1", "YTK:1\nYTK:2", "YTK:2\nYTK:1",
                 "a\nYTK:3b\nb\nYTK:3b\nc", "YTK:nope\nYTK:1", "x\ny\nz", "YTK:1\r\nrest", ["YTK:1"], 42, b"YTK:1",
                 "YTK:cassette vector", "YTK:entry vector", "YTK:Entry Vector", "YTK:678\n\n\nnote"]
    for index, comment in enumerate(comments):
        record = make_record(rng, index, comment)
        registry = registries[index % 2]
        results.append(load(registry, record))
        if rng.random() < 0.3:  # loading the same record twice: the hint is gone the second time
            results.append(load(registry, record))
            results.append(load(registry, record))

    # not even a record
    for bad in (None, 3, "record"):
        results.append(outcome(registries[0]._load_entity, bad))

    # a subclass with another table goes through the same code
    class Tiny(YTKRegistry):
        _types = {"1": lambda record: ("one", record.id), "": lambda record: ("empty", record.id)}

    tiny = Tiny()
    for index, comment in enumerate(comments[:400]):
        record = make_record(rng, index, comment)
        results.append((record.annotations.get("comment"), outcome(tiny._load_entity, record),
                        record.annotations.get("comment")))

    # the real archives
    for registry in registries:
        for key in sorted(registry):
            item = registry[key]
            results.append((key, item.name, item.resistance, type(item.entity).__name__,
                            item.record.annotations.get("comment"), item.entity.record is item.record))

    print(len(results), hashlib.sha256(repr(results).encode("utf-8")).hexdigest())


main()
