"""Differential test for the registry code (C20).

Exercises moclo.registry (_utils, base, elabftw and the kit registries) through
the existing API on generated inputs and prints a digest of every result,
exception (type and message), warning and of the state of the inputs afterwards.
The digest must be the same before and after a behaviour preserving change.
"""
import sys

sys.path.insert(0, "/tmp/agents7/C20")
import tests  # noqa: E402,F401

import copy
import hashlib
import io
import json
import os
import random
import re
import shutil
import tempfile
import urllib.request
import warnings

import fs
import six
import Bio.SeqIO
from Bio.Seq import Seq
from Bio.SeqFeature import SeqFeature, FeatureLocation
from Bio.SeqRecord import SeqRecord

from moclo.kits import ytk, cidar
from moclo.record import CircularRecord
from moclo.registry import base as rbase
from moclo.registry import elabftw
from moclo.registry._utils import find_resistance
from moclo.registry.base import CombinedRegistry, FilesystemRegistry, EmbeddedRegistry, Item
from moclo.registry.ytk import YTKRegistry, PTKRegistry
from moclo.registry.cidar import CIDARRegistry
from moclo.registry.ecoflex import EcoFlexRegistry
from moclo.registry.plant import PlantRegistry

rng = random.Random(20)
sections = {}
current = []


def emit(*parts):
    text = " | ".join(str(p) for p in parts)
    text = re.sub(r"0x[0-9a-f]+", "0x?", text)
    text = re.sub(r"c20-equiv-\w+", "c20-equiv-TMP", text)
    current.append(text)


def close(name):
    global current
    text = "\n".join(current)
    if len(sys.argv) > 1:  # optional: dump everything to the given file
        with open(sys.argv[1], "a") as f:
            f.write("=== %s\n%s\n" % (name, text))
    sections[name] = (len(current), hashlib.sha256(text.encode("utf-8")).hexdigest())
    current = []


def outcome(func, *args, **kwargs):
    """repr of what a call does: its value or its exception."""
    try:
        value = func(*args, **kwargs)
    except BaseException as err:  # noqa: B902
        return "raise %s(%s) cause=%r suppress=%r" % (
            type(err).__name__, err, err.__cause__, err.__suppress_context__)
    return value


def describe(item):
    if not isinstance(item, Item):
        return item
    record = item.entity.record
    return "Item(id=%r name=%r res=%r entity=%s record=%s rid=%r rname=%r rdesc=%r same=%r seq=%s nfeat=%d annot=%s)" % (
        item.id, item.name, item.resistance, type(item.entity).__name__, type(record).__name__,
        record.id, record.name, record.description, item.record is record,
        hashlib.md5(str(record.seq).encode()).hexdigest()[:10], len(record.features),
        hashlib.md5(repr(sorted(record.annotations.items(), key=str)).encode()).hexdigest()[:10],
    )


caught = warnings.catch_warnings(record=True)
wlist = caught.__enter__()
warnings.simplefilter("always")

# --- 1. find_resistance on generated records ----------------------------------

LABELS = ["KanR", "CamR", "CmR", "KnR", "AmpR", "SmR", "SpecR", "kanr", "AMPR", "GFP", "ori", "ColE1", "", "CmR promoter", "TetR", "GmR"]


def random_record(i):
    features = []
    for _ in range(rng.randrange(0, 6)):
        qualifiers = {}
        kind = rng.random()
        if kind < 0.7:
            qualifiers["label"] = [rng.choice(LABELS) for _ in range(rng.randrange(0, 4))]
        elif kind < 0.8:
            qualifiers["label"] = rng.choice(LABELS)  # a bare string
        elif kind < 0.9:
            qualifiers["note"] = [rng.choice(LABELS)]
        if rng.random() < 0.3:
            qualifiers["gene"] = [rng.choice(LABELS)]
        start = rng.randrange(0, 50)
        features.append(SeqFeature(FeatureLocation(start, start + 10, 1), type="misc_feature", qualifiers=qualifiers))
    cls = rng.choice([SeqRecord, CircularRecord])
    return cls(Seq("ATGC" * 20), id="rec%d" % i, name="name%d" % i, features=features)


for i in range(400):
    record = random_record(i)
    before = repr([(f.type, sorted(f.qualifiers.items())) for f in record.features])
    emit("find_resistance", i, type(record).__name__, outcome(find_resistance, record))
    after = repr([(f.type, sorted(f.qualifiers.items())) for f in record.features])
    emit("unchanged", before == after)
close("find_resistance")

# --- 2. embedded registries ------------------------------------------------------

embedded = [YTKRegistry(), PTKRegistry(), CIDARRegistry(), EcoFlexRegistry(), PlantRegistry()]
for registry in embedded:
    label = type(registry).__name__
    emit(label, "len-before-load", outcome(len, registry))
    emit(label, "iter-before-load", outcome(list, registry))
    emit(label, "missing", outcome(registry.__getitem__, "nope"), outcome(registry.__getitem__, 3), "nope" in registry)
    keys = list(registry)
    emit(label, "keys", keys, len(registry), list(registry.keys()) == keys)
    for key in keys:
        emit(label, key, key in registry, describe(outcome(registry.__getitem__, key)))
        emit(label, key, "same item twice", registry[key] is registry[key])
    emit(label, "values", [describe(v) for v in registry.values()] == [describe(registry[k]) for k in keys])
    emit(label, "get", describe(registry.get(keys[0])), registry.get("nope"), registry.get("nope", 1))
    for other in embedded + [type(registry)(), "x", None]:
        emit(label, "eq", type(other).__name__, registry == other, registry != other,
             hash(registry) == hash(other) if isinstance(other, EmbeddedRegistry) else None)
    fresh = type(registry)()
    emit(label, "fresh instance has its own items", fresh[keys[0]] is not registry[keys[0]], describe(fresh[keys[0]]))
    # loaders, on crafted records
    for i in range(12):
        record = random_record(1000 + i)
        emit(label, "_load_resistance", i, outcome(registry._load_resistance, record))
        emit(label, "_load_name", i, outcome(registry._load_name, record))
    bad = CircularRecord(Seq("ATGC" * 30), id="bad", name="bad", description="MoClo Basic Part: Nothing", annotations={"comment": "hello\nYTK:nope"})
    emit(label, "_load_entity(bad)", outcome(registry._load_entity, copy.deepcopy(bad)))
    bad2 = CircularRecord(Seq("ATGC" * 30), id="pTU1-bad", name="bad", description="nothing", annotations={})
    emit(label, "_load_entity(bad2)", describe(outcome(registry._load_entity, copy.deepcopy(bad2))))


class Missing(YTKRegistry):
    _file = "missing.tar.gz"


class Custom(EmbeddedRegistry):
    _module = "moclo.registry.ytk"
    _file = "ptk.tar.gz"  # NB: same archive as PTKRegistry

    def _load_entity(self, record):
        return ytk.YTKPart.characterize(record)

    def _load_name(self, record):
        return record.description


class Custom2(Custom):
    _module = "moclo.registry.cidar"
    _file = "cidar.tar.gz"

    def _load_resistance(self, record):
        return "Unknown"


emit("abstract", outcome(EmbeddedRegistry), outcome(rbase.AbstractRegistry))
for registry in (Missing(), Custom(), Custom2()):
    label = type(registry).__name__
    emit(label, "len", outcome(len, registry), "iter", outcome(list, registry))
    emit(label, "lookup", describe(outcome(registry.__getitem__, "pPTK001")), describe(outcome(registry.__getitem__, "B0015_DE")),
         outcome(registry.__contains__, "pPTK001"))
    emit(label, "values", outcome(lambda: [describe(v) for v in registry.values()]))
    emit(label, "eq", [registry == other for other in embedded], registry == type(registry)())
close("embedded")

yreg, preg, creg_, ereg, plreg = embedded

# --- 3. directories ----------------------------------------------------------------


def genbank(records):
    buff = io.StringIO()
    Bio.SeqIO.write(records, buff, "genbank")
    return buff.getvalue()


def variant(record, kind):
    record = copy.deepcopy(record)
    if kind == "nores":
        for f in record.features:
            f.qualifiers.pop("label", None)
    elif kind == "multi":
        record.features.insert(0, SeqFeature(FeatureLocation(0, 10, 1), type="misc_feature", qualifiers={"label": ["CmR", "AmpR"]}))
    elif kind == "linear":
        record.annotations["topology"] = "linear"
    elif kind == "renamed":
        record.id = record.name = "renamed%d" % rng.randrange(100)
        record.description = "a renamed plasmid"
    elif kind == "lower":
        record.seq = record.seq.lower()
    return record


sources = [yreg[k].record for k in ("pYTK002", "pYTK003", "pYTK008", "pYTK038", "pYTK047", "pYTK095", "pYTK056", "pYTK083")]
sources += [preg["pPTK005"].record, creg_["C0062_CD"].record, creg_["DVA_GB"].record]
KINDS = ["plain"] * 6 + ["renamed"] * 4 + ["lower"] * 2 + ["nores", "multi", "linear"]
STEMS = ["alpha", "beta", "Gamma", "pYTK002", "pYTK003", "v2.plasmid", "with space", "déjà", "x", "a.b.c", "UPPER", ".hidden", "5", "sub"]
EXTS = ["gb"] * 6 + ["gbk"] * 4 + ["genbank", "GB", "gb.txt", "txt", "fasta", "Gbk", "seq.gb"]
BASES = [ytk.YTKPart] * 8 + [ytk.YTKPart8, ytk.YTKPart1, cidar.CIDARPart, cidar.CIDARPart, ytk.YTKEntryVector]
EXTENSIONS = [None] * 8 + [("gb",), ("gbk", "gb"), ["genbank", "gb"], ("GB",), ("seq.gb", "gb"), (), ("txt",)]


def random_directory():
    files = {}
    for stem in rng.sample(STEMS, rng.randrange(0, 8)):
        for ext in sorted(set(rng.sample(EXTS, rng.choice([1, 1, 1, 2])))):
            roll = rng.random()
            if roll < 0.08:
                text = "this is not a GenBank file\n"
            elif roll < 0.14:
                text = genbank([rng.choice(sources), rng.choice(sources)])
            elif roll < 0.17:
                text = ""
            else:
                text = genbank([variant(rng.choice(sources), rng.choice(KINDS))])
            files["%s.%s" % (stem, ext)] = text
    if rng.random() < 0.6:
        files["sub/delta.gb"] = genbank([sources[0]])
        files["sub/alpha.gbk"] = genbank([sources[1]])
    if rng.random() < 0.3:
        files["dir.gb/inner.gb"] = genbank([sources[2]])
    if rng.random() < 0.3:
        files["README"] = "nothing\n"
    return files


def populate(filesystem, files):
    for path, text in files.items():
        if "/" in path:
            filesystem.makedirs(path.rsplit("/", 1)[0], recreate=True)
        with filesystem.open(path, "w") as f:
            f.write(text)


def snapshot(filesystem):
    return sorted((path, hashlib.md5(filesystem.readbytes(path)).hexdigest()) for path in filesystem.walk.files())


tmp = tempfile.mkdtemp(prefix="c20-equiv-")
directories = []
for n in range(90):
    files = random_directory()
    if n % 3 == 0:
        root = os.path.join(tmp, "d%d" % n)
        os.mkdir(root)
        with fs.open_fs(root) as osfs:
            populate(osfs, files)
        url = rng.choice([root, "osfs://" + root])
        probe = fs.open_fs(root)
    else:
        url = probe = fs.open_fs("mem://")
        populate(probe, files)
    base = rng.choice(BASES)
    extensions = rng.choice(EXTENSIONS)
    label = "dir%d" % n
    before = snapshot(probe)
    emit(label, "files", sorted(files), base.__name__, extensions, type(url).__name__)
    if extensions is None:
        registry = outcome(FilesystemRegistry, url, base)
    elif n % 2:
        registry = outcome(FilesystemRegistry, url, base, extensions)
    else:
        registry = outcome(FilesystemRegistry, url, base, extensions=extensions)
    if not isinstance(registry, FilesystemRegistry):
        emit(label, "constructor", registry)
        continue
    if url is probe:  # only in-memory directories list their files in a reproducible order
        directories.append((label, registry))
    emit(label, "attrs", registry.base.__name__, registry._extensions, registry._files, registry._recurse, type(registry.fs).__name__)
    keys = outcome(list, registry)
    emit(label, "keys", sorted(keys) if isinstance(keys, list) else keys, outcome(len, registry))
    emit(label, "keys twice", outcome(list, registry) == keys)
    lookups = list(keys) + ["nope", "sub", "delta", "sub/delta", "sub/alpha", "dir", "README", 5, "alpha.gb", "", "ALPHA", "a.b"] + rng.sample(STEMS, 4)
    for key in lookups:
        emit(label, repr(key), outcome(registry.__contains__, key), describe(outcome(registry.__getitem__, key)))
    emit(label, "get", describe(outcome(registry.get, "alpha")), describe(outcome(registry.get, "nope", 7)))
    emit(label, "values", outcome(lambda: sorted(describe(v) for v in registry.values())))
    emit(label, "items", outcome(lambda: sorted((k, describe(v)) for k, v in registry.items())))
    emit(label, "read only", outcome(registry.fs.remove, "alpha.gb"), outcome(registry.fs.writetext, "new.gb", "x"))
    emit(label, "eq", outcome(lambda: registry == registry), outcome(hash, registry))
    emit(label, "directory unchanged", snapshot(probe) == before)

for bad_base in (None, "YTKPart", object, int, ytk, SeqRecord, (ytk.YTKPart,), ytk.YTKPart(sources[0])):
    emit("bad base", outcome(FilesystemRegistry, "mem://", bad_base), outcome(FilesystemRegistry, "mem://", bad_base, ("gb",)))
for bad_url in ("nosuchproto://x", os.path.join(tmp, "missing"), 5, None):
    emit("bad url", repr(bad_url), outcome(FilesystemRegistry, bad_url, ytk.YTKPart))
close("directories")

# --- 4. combinations -----------------------------------------------------------------

members_pool = [(type(r).__name__, r) for r in embedded] + directories
for n in range(120):
    members = [rng.choice(members_pool) for _ in range(rng.randrange(0, 6))]
    if rng.random() < 0.3 and members:
        members.append(members[0])
    label = "combo%d(%s)" % (n, "<<".join(m[0] for m in members))
    combined = CombinedRegistry()
    failed = False
    for index, (_, member) in enumerate(members):
        if index % 2:
            result = outcome(combined.add_registry, member)
            emit(label, "add_registry", result)
        else:
            result = outcome(combined.__lshift__, member)
            emit(label, "<<", result is combined if not isinstance(result, str) else result)
    keys = list(combined)
    emit(label, "keys", keys, len(combined), list(combined.keys()) == keys)
    for key in keys:
        item = combined[key]
        origin = None
        for index, (_, member) in enumerate(members):
            if isinstance(member, EmbeddedRegistry) and key in member._data and member[key] is item:
                origin = index
                break
        emit(label, key, key in combined, describe(item), origin, combined[key] is item)
    for key in ("nope", 5, None, "pYTK002", "alpha", "sub/delta"):
        emit(label, "lookup", repr(key), outcome(combined.__contains__, key), describe(outcome(combined.__getitem__, key)))
    emit(label, "get", describe(combined.get("pYTK001")), combined.get("nope", 3))
    if n % 10 == 0:
        outer = CombinedRegistry() << preg << combined << yreg
        emit(label, "nested", list(outer), [describe(v) for v in outer.values()])
emit("bad member", outcome(CombinedRegistry().add_registry, None), outcome(CombinedRegistry().add_registry, {"a": 1}),
     outcome(lambda: list(CombinedRegistry() << {"a": yreg["pYTK001"], "b": yreg["pYTK001"]})))
close("combinations")

# --- 5. eLabFTW (with a fake server) ------------------------------------------------

SERVER = {}
REQUESTS = []


class Response(io.BytesIO):
    pass


def fake_urlopen(req, *args, **kwargs):
    ctx = kwargs.get("context")
    REQUESTS.append((req.full_url, req.get_header("Authorization"), sorted(k for k in kwargs),
                     None if ctx is None else (ctx.check_hostname, int(ctx.verify_mode)), args))
    try:
        return Response(SERVER[req.full_url])
    except KeyError:
        raise urllib.error.HTTPError(req.full_url, 404, "Not Found", {}, None)


urllib.request.urlopen = fake_urlopen
six.moves.urllib.request.urlopen = fake_urlopen

exported = variant(sources[0], "plain")
exported.name = "Exported"
exported.id = "Exported"
inventory = []
plasmids = [
    ("pAlpha", "Plasmids", "ytk|part", [genbank([sources[0]])]),
    ("pBeta", "Plasmids", "", [b"\xff\xfe not text", "not genbank", genbank([sources[3]])]),
    ("pExported", "Plasmids", "ytk", [genbank([exported])]),
    ("pNoFile", "Plasmids", "part", []),
    ("pNoRes", "Plasmids", None, [genbank([variant(sources[1], "nores")])]),
    ("pCidar", "Plasmids", "cidar", [genbank([sources[9]])]),
    ("Antibody", "Antibodies", "ytk", [genbank([sources[2]])]),
    ("pAlpha", "Plasmids", "dup", [genbank([sources[4]])]),
]
for ident, (title, category, tags, uploads) in enumerate(plasmids, 1):
    inventory.append({"id": ident, "title": title, "category": category, "tags": tags})
    entry = {"id": ident, "title": title, "category": category, "tags": tags}
    if uploads:
        entry["uploads"] = []
        for k, content in enumerate(uploads):
            long_name = "u%d_%d.gb" % (ident, k)
            entry["uploads"].append({"long_name": long_name})
            SERVER["https://elab.example.org/uploads/" + long_name] = content if isinstance(content, bytes) else content.encode("utf-8")
    SERVER["https://elab.example.org/api/v1/items/%d" % ident] = json.dumps(entry).encode("utf-8")
SERVER["https://elab.example.org/api/v1/items/"] = json.dumps(inventory).encode("utf-8")

for args, kwargs in [
    (("https://elab.example.org", "tok", ytk.YTKPart), {}),
    (("https://elab.example.org", "tok", ytk.YTKPart), {"ignore_unknown": False}),
    (("https://elab.example.org", "tok", ytk.YTKPart), {"include_tags": ["ytk"], "strict_ssl": True}),
    (("https://elab.example.org", "tok", ytk.YTKPart), {"exclude_tags": ("part", "cidar"), "category": "Plasmids"}),
    (("https://elab.example.org", "tok", ytk.YTKPart, "Antibodies"), {}),
    (("https://elab.example.org", "tok", cidar.CIDARPart), {"include_tags": [], "exclude_tags": []}),
    (("ftp://elab.example.org", "tok", ytk.YTKPart), {}),
    ((5, "tok", ytk.YTKPart), {}),
    ((b"https://x", "tok", ytk.YTKPart), {}),
    (("https://elab.example.org", "tok", "YTKPart"), {}),
    (("https://elab.example.org", "tok", int), {}),
    (("https://other.example.org", "tok", ytk.YTKPart), {}),
]:
    label = "elab%r%r" % (tuple(getattr(a, "__name__", a) for a in args), sorted(kwargs.items()))
    registry = outcome(elabftw.ELabFTWRegistry, *args, **kwargs)
    if not isinstance(registry, elabftw.ELabFTWRegistry):
        emit(label, "constructor", registry)
        continue
    emit(label, "attrs", registry.base.__name__, registry.server, registry.token, registry.category, registry._strict,
         registry._ignore_unknown,
         registry._include and sorted(registry._include), registry._exclude and sorted(registry._exclude))
    del REQUESTS[:]
    emit(label, "iter", outcome(list, registry))
    emit(label, "len", outcome(len, registry), outcome(registry.__length_hint__))
    for key in ("pAlpha", "pBeta", "pExported", "pNoFile", "pNoRes", "pCidar", "Antibody", "nope"):
        emit(label, key, describe(outcome(registry.__getitem__, key)), outcome(registry.__contains__, key))
    emit(label, "requests", REQUESTS)
close("elabftw")

# --- 6. warnings, digest ---------------------------------------------------------------

caught.__exit__(None, None, None)
for w in wlist:
    if issubclass(w.category, ResourceWarning):  # depends on garbage collection
        continue
    emit("warning", w.category.__name__, str(w.message)[:200])
close("warnings")
shutil.rmtree(tmp, ignore_errors=True)

total = hashlib.sha256()
for name, (count, digest) in sections.items():
    print("%-16s %6d lines  %s" % (name, count, digest))
    total.update(digest.encode())
print("DIGEST", total.hexdigest())
