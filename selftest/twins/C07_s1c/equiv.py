# coding: utf-8
"""Differential test for the code behind moclo assemblies.

Exercises records, regexes, every kit class, all registries and a few
hundred generated assemblies (successful, warning, failing, repeated,
retried) and prints a digest of everything observed, including the state
of the inputs after every call.

Run as: cd /tmp/agents8/C07 && /venv/bin/python pairs_out/C07_s1/equiv.py
"""
import sys

sys.path.insert(0, "/tmp/agents8/C07")
import tests  # noqa: E402,F401  (splices the kits into the moclo namespace)

import copy  # noqa: E402
import hashlib  # noqa: E402
import inspect  # noqa: E402
import os  # noqa: E402
import random  # noqa: E402
import re  # noqa: E402
import warnings  # noqa: E402

from Bio import Restriction  # noqa: E402
from Bio.Seq import Seq  # noqa: E402
from Bio.SeqFeature import (  # noqa: E402
    SeqFeature,
    FeatureLocation,
    CompoundLocation,
    Reference,
)
from Bio.SeqRecord import SeqRecord  # noqa: E402

import moclo  # noqa: E402
from moclo import errors  # noqa: E402
from moclo.record import CircularRecord  # noqa: E402
from moclo.regex import DNARegex  # noqa: E402
from moclo.core import (  # noqa: E402
    AbstractModule,
    AbstractVector,
    AbstractPart,
    Product,
    Entry,
    Cassette,
    Device,
    EntryVector,
    CassetteVector,
    DeviceVector,
)
from moclo.core import modules as core_modules  # noqa: E402
from moclo.core import vectors as core_vectors  # noqa: E402
from moclo.core import parts as core_parts  # noqa: E402
from moclo.kits import cidar, ecoflex, plant, ytk  # noqa: E402
from moclo.kits import moclo as moclo_kit  # noqa: E402

LOG = []


def log(*items):
    LOG.append(" ".join(str(x) for x in items))


# --- snapshots ---------------------------------------------------------------


def show_ref(ref):
    if isinstance(ref, Reference):
        return "Ref<{}|{}|{}|{}>".format(ref.title, ref.authors, ref.journal, ref.location)
    return repr(ref)


def show_value(value):
    if isinstance(value, (list, tuple)):
        return "[" + ", ".join(show_value(v) for v in value) + "]"
    return show_ref(value)


def show_feature(feature):
    quals = ";".join(
        "{}={}".format(k, show_value(v)) for k, v in feature.qualifiers.items()
    )
    return "{}|{!r}|{}|{}".format(feature.type, feature.location, feature.id, quals)


def snapshot(record):
    """A deep, printable picture of a record."""
    lines = [
        type(record).__name__,
        str(record.seq),
        repr(record.id),
        repr(record.name),
        repr(record.description),
        repr(record.dbxrefs),
    ]
    lines.extend(show_feature(f) for f in record.features)
    for key, value in record.annotations.items():
        lines.append("@{}={}".format(key, show_value(value)))
    for key, value in record.letter_annotations.items():
        lines.append("#{}={!r}".format(key, value))
    return "\n".join(lines)


def short(text):
    return hashlib.sha256(text.encode("utf-8")).hexdigest()[:16]


def outcome(func, *args, **kwargs):
    """Call and describe the result, the exception and the warnings."""
    strict = kwargs.pop("_strict", False)
    with warnings.catch_warnings(record=True) as caught:
        warnings.simplefilter("always")
        if strict:
            warnings.simplefilter("error", errors.AssemblyWarning)
        try:
            result = func(*args, **kwargs)
            status = ("ok", result)
        except Exception as exc:  # noqa
            status = ("raise", "{}: {}".format(type(exc).__name__, exc))
    warns = [
        "{}: {}".format(w.category.__name__, w.message)
        for w in caught
        if not issubclass(w.category, (DeprecationWarning, PendingDeprecationWarning))
    ]
    return status[0], status[1], warns


def show_result(value):
    if isinstance(value, SeqRecord):
        return "record " + short(snapshot(value)) + " len={}".format(len(value))
    if isinstance(value, Seq):
        return "seq " + str(value)
    return repr(value)


# --- generated sequences -----------------------------------------------------


def rc(text):
    return str(Seq(text).reverse_complement())


def random_dna(rng, n, forbidden=()):
    while True:
        s = "".join(rng.choice("ACGT") for _ in range(n))
        if not any(f in s for f in forbidden):
            return s


def count_circular(seq, word):
    doubled = (seq + seq[: len(word) - 1]).upper()
    return len(re.findall("(?={})".format(word), doubled))


class Geometry(object):
    """How to write a module / vector for a 5' overhang type IIS enzyme."""

    def __init__(self, enzyme):
        self.enzyme = enzyme
        self.site = enzyme.site
        self.gap = enzyme.fst5 - len(enzyme.site)
        self.ovhg = abs(enzyme.ovhg)

    def forbidden(self):
        return (self.site, rc(self.site))

    def module(self, rng, start, end, insert, left, right):
        gap1 = random_dna(rng, self.gap)
        gap2 = random_dna(rng, self.gap)
        return left + self.site + gap1 + start + insert + end + gap2 + rc(self.site) + right

    def vector(self, rng, start, end, placeholder, left, right):
        # start: upstream overhang (third group), end: downstream (first group)
        gap1 = random_dna(rng, self.gap)
        gap2 = random_dna(rng, self.gap)
        return left + end + gap1 + rc(self.site) + placeholder + self.site + gap2 + start + right


def make_reference(title):
    ref = Reference()
    ref.title = title
    ref.authors = "Doe J., Roe R."
    ref.journal = "J. Irreproducible Results"
    return ref


def decorate(rng, record, label, n_refs, n_feats, cite_style="ok"):
    """Add features (some with citations) and references to a record."""
    n = len(record.seq)
    if n_refs:
        record.annotations["references"] = [
            make_reference("{} ref {}".format(label, i)) for i in range(n_refs)
        ]
    for k in range(n_feats):
        a = rng.randrange(0, n - 1)
        b = rng.randrange(a + 1, min(n, a + 12) + 1)
        quals = {"label": ["{}-f{}".format(label, k)]}
        if n_refs and rng.random() < 0.7:
            cites = ["[{}]".format(rng.randrange(1, n_refs + 1))]
            if rng.random() < 0.3:
                cites.append("[{}]".format(rng.randrange(1, n_refs + 1)))
            quals["citation"] = cites
        strand = rng.choice([1, -1, None])
        record.features.append(
            SeqFeature(FeatureLocation(a, b, strand=strand), type="misc_feature", qualifiers=quals)
        )
    if cite_style != "ok" and n_refs:
        bad = {"bad": "[x]", "far": "[{}]".format(n_refs + 5), "zero": "[0]", "empty": "[]"}[cite_style]
        record.features.append(
            SeqFeature(
                FeatureLocation(0, 3),
                type="misc_feature",
                qualifiers={"label": [label + "-odd"], "citation": [bad]},
            )
        )
    return record


def make_record(rng, seq, label, kind, rotate, lower):
    """Wrap a sequence in a record of the requested flavour."""
    if rotate:
        k = rng.randrange(1, len(seq))
        seq = seq[k:] + seq[:k]
    if lower == "lower":
        seq = seq.lower()
    elif lower == "mixed":
        seq = "".join(c.lower() if rng.random() < 0.5 else c for c in seq)
    if kind == "circular":
        rec = CircularRecord(Seq(seq), id=label, name=label, description=label + " desc")
        rec.annotations["topology"] = "circular"
    elif kind == "circular-bare":
        rec = CircularRecord(Seq(seq), id=label, name=label)
    elif kind == "plain":
        rec = SeqRecord(Seq(seq), id=label, name=label)
        rec.annotations["topology"] = "circular"
    elif kind == "plain-bare":
        rec = SeqRecord(Seq(seq), id=label, name=label)
    elif kind == "linear":
        rec = SeqRecord(Seq(seq), id=label, name=label)
        rec.annotations["topology"] = "linear"
    else:
        raise ValueError(kind)
    rec.annotations["molecule_type"] = "DNA"
    rec.dbxrefs.append("db:" + label)
    return rec


ENZYMES = [Restriction.BpiI, Restriction.BsaI, Restriction.BsmBI, Restriction.SapI]
MOCKS = {}
for _enz in ENZYMES:
    MOCKS[_enz] = (
        type(str("MockVector" + _enz.__name__), (AbstractVector,), {"cutter": _enz}),
        type(str("MockModule" + _enz.__name__), (AbstractModule,), {"cutter": _enz}),
    )


class ThreePrimeModule(AbstractModule):
    cutter = Restriction.BtsI

    @staticmethod
    def structure():
        return "GCAGTG(NN)(NN*N)(NN)CACTGC"


class ThreePrimeVector(AbstractVector):
    cutter = Restriction.BtsI

    @staticmethod
    def structure():
        return "(NN)(CACTGCN*GCAGTG)(NN)"


def unique_overhangs(rng, n, size):
    result = []
    while len(result) < n:
        o = random_dna(rng, size)
        if o == rc(o):
            continue
        if any(o == p or o == rc(p) for p in result):
            continue
        result.append(o)
    return result


def build_case(rng, enzyme, n_modules, options):
    """Build a vector and the chain of modules that fits in it."""
    geo = Geometry(enzyme)
    forb = geo.forbidden()
    vcls, mcls = MOCKS[enzyme]
    while True:
        ovs = unique_overhangs(rng, n_modules + 1, geo.ovhg)
        seqs = []
        seqs.append(
            geo.vector(
                rng,
                ovs[-1],
                ovs[0],
                random_dna(rng, rng.randrange(4, 20), forb),
                random_dna(rng, rng.randrange(3, 25), forb),
                random_dna(rng, rng.randrange(3, 25), forb),
            )
        )
        for i in range(n_modules):
            seqs.append(
                geo.module(
                    rng,
                    ovs[i],
                    ovs[i + 1],
                    random_dna(rng, rng.randrange(2, 30), forb),
                    random_dna(rng, rng.randrange(0, 15), forb),
                    random_dna(rng, rng.randrange(0, 15), forb),
                )
            )
        if all(count_circular(s, geo.site) == 1 and count_circular(s, rc(geo.site)) == 1 for s in seqs):
            break
    records = []
    for i, s in enumerate(seqs):
        label = "vec" if i == 0 else "mod{}".format(i)
        kind = options.get("kinds", {}).get(i, "circular")
        rec = make_record(rng, s, label, kind, options.get("rotate", False), options.get("case", "upper"))
        if options.get("cited", True):
            decorate(
                rng,
                rec,
                label,
                n_refs=rng.randrange(0, 4),
                n_feats=rng.randrange(0, 6),
                cite_style=options.get("cite_styles", {}).get(i, "ok"),
            )
        records.append(rec)
    vector = vcls(records[0])
    mods = [mcls(r) for r in records[1:]]
    return vector, mods, ovs


def run_history(tag, vector, calls):
    """Run a sequence of assemble calls over shared objects and log it."""
    everything = [vector.record]
    for mods, _ in calls:
        for m in mods:
            if not any(m.record is r for r in everything):
                everything.append(m.record)
    log(tag, "inputs", " ".join(short(snapshot(r)) for r in everything))
    for n, (mods, kwargs) in enumerate(calls):
        mode = kwargs.pop("_warnings", "record")
        status, value, warns = outcome(
            lambda: vector.assemble(*mods, **kwargs), _strict=(mode == "error")
        )
        log(tag, "call", n, status, show_result(value) if status == "ok" else value, "|".join(warns))
        if status == "ok":
            log(tag, "call", n, "result", _genbank(value))
        log(tag, "call", n, "after", " ".join(short(snapshot(r)) for r in everything))
        for r in everything:
            LOG.append(snapshot(r))


def _genbank(record):
    with warnings.catch_warnings():
        warnings.simplefilter("ignore")
        try:
            return short(record.format("genbank"))
        except Exception as exc:  # noqa
            return "unformattable ({})".format(type(exc).__name__)


# --- section A: records ------------------------------------------------------


def section_records():
    rng = random.Random(101)
    for n in range(40):
        length = rng.randrange(1, 40)
        seq = random_dna(rng, length)
        feats = []
        for k in range(rng.randrange(0, 5)):
            a = rng.randrange(0, length)
            b = rng.randrange(a, length) + 1
            if rng.random() < 0.2 and length > 6:
                loc = CompoundLocation(
                    [FeatureLocation(0, 2, strand=1), FeatureLocation(length - 2, length, strand=1)]
                )
            else:
                loc = FeatureLocation(a, b, strand=rng.choice([1, -1, None]))
            feats.append(
                SeqFeature(loc, type=rng.choice(["CDS", "source", "misc"]), id="f%d" % k, qualifiers={"label": ["L%d" % k], "citation": ["[1]"]})
            )
        if rng.random() < 0.4:
            feats.append(SeqFeature(FeatureLocation(0, length), type="source", qualifiers={"k": ["v"]}))
        annotations = {"references": [make_reference("r")], "molecule_type": "DNA"}
        if rng.random() < 0.5:
            annotations["topology"] = "circular"
        letters = {"phred_quality": list(range(length))} if rng.random() < 0.4 else None
        base = SeqRecord(
            Seq(seq), id="rec%d" % n, name="n%d" % n, description="d%d" % n,
            dbxrefs=["x:%d" % n], features=feats, annotations=annotations, letter_annotations=letters,
        )
        before = snapshot(base)
        cr = CircularRecord(base)
        log("A", n, "init", short(snapshot(cr)), snapshot(base) == before)
        log(
            "A", n, "init-alias",
            cr.features is base.features, cr.annotations is base.annotations,
            cr.dbxrefs is base.dbxrefs,
            any(f is g for f in cr.features for g in base.features),
            any(f.qualifiers is g.qualifiers for f in cr.features for g in base.features),
            any(f.qualifiers["label"] is g.qualifiers["label"] for f in cr.features for g in base.features if "label" in f.qualifiers and "label" in g.qualifiers),
            cr.annotations["references"] is base.annotations["references"],
            cr.annotations["references"][0] is base.annotations["references"][0],
            cr.seq is base.seq,
        )
        cr_before = snapshot(cr)
        for k in [0, 1, -1, length, length + 3, rng.randrange(-50, 50)]:
            for op in (">>", "<<"):
                st, val, w = outcome((lambda: cr >> k) if op == ">>" else (lambda: cr << k))
                log("A", n, op, k, st, show_result(val) if st == "ok" else val, w)
                if st == "ok":
                    LOG.append(snapshot(val))
                    log(
                        "A", n, op, k, "alias", val is cr, val.annotations is cr.annotations,
                        val.dbxrefs is cr.dbxrefs, val.features is cr.features,
                        [f.qualifiers is g.qualifiers for f, g in zip(val.features, cr.features)],
                        type(val).__name__,
                    )
        for index in [slice(None), slice(0, length // 2), slice(length // 3, None), slice(None, None, 2), slice(2, 1), 0, -1, length, slice(-3, None)]:
            st, val, w = outcome(lambda: cr[index])
            log("A", n, "getitem", index, st, show_result(val) if st == "ok" else val, w)
            if st == "ok" and isinstance(val, SeqRecord):
                LOG.append(snapshot(val))
                log(
                    "A", n, "getitem-alias", type(val).__name__,
                    val.annotations is cr.annotations, val.dbxrefs is cr.dbxrefs,
                    any(f is g for f in val.features for g in cr.features),
                    any(f.qualifiers is g.qualifiers for f in val.features for g in cr.features),
                    any(
                        f.qualifiers[q] is g.qualifiers[q]
                        for f in val.features for g in cr.features
                        for q in f.qualifiers if q in g.qualifiers
                    ),
                    any(a is b for a in val.letter_annotations.values() for b in cr.letter_annotations.values()),
                )
        for word in [seq[-2:] + seq[:2], seq, seq + seq[:1], "", "ACGT"]:
            st, val, w = outcome(lambda: word in cr)
            log("A", n, "contains", word, st, val)
        st, val, w = outcome(cr.reverse_complement)
        log("A", n, "revcomp", st, show_result(val) if st == "ok" else val, type(val).__name__)
        st, val, w = outcome(lambda: cr.reverse_complement(id=True, name=True, description=True, annotations=True, dbxrefs=True))
        log("A", n, "revcomp-all", st, show_result(val) if st == "ok" else val)
        if st == "ok":
            LOG.append(snapshot(val))
        for other in (cr, "ACGT", base):
            log("A", n, "add", outcome(lambda: cr + other)[:2], outcome(lambda: other + cr)[1] if not isinstance(other, CircularRecord) else "-")
        log("A", n, "unchanged", snapshot(cr) == cr_before, snapshot(base) == before)
    # constructor corner cases
    log("A", "linear", outcome(CircularRecord, SeqRecord(Seq("ACGT"), annotations={"topology": "linear"}))[:2])
    log("A", "linear2", outcome(CircularRecord, Seq("ACGT"), annotations={"topology": "Linear"})[:2])
    log("A", "upper-topology", outcome(CircularRecord, Seq("ACGT"), annotations={"topology": "CIRCULAR"})[0])
    log("A", "bad-topology", outcome(CircularRecord, Seq("ACGT"), annotations={"topology": 3})[:2])
    log("A", "empty>>", outcome(lambda: CircularRecord(Seq("")) >> 1)[:2])
    log("A", "defaults", snapshot(CircularRecord(Seq("ACGT"))))
    log("A", "nested", snapshot(CircularRecord(CircularRecord(SeqRecord(Seq("ACGT"), id="x")))))

    class MyRecord(CircularRecord):
        pass

    mine = MyRecord(SeqRecord(Seq("ACGTAC"), id="mine", features=[SeqFeature(FeatureLocation(1, 3), type="x")]))
    log("A", "subclass", type(mine >> 2).__name__, type(mine[1:3]).__name__, type(mine.reverse_complement()).__name__, snapshot(mine >> 2))


# --- section B: regexes ------------------------------------------------------


def section_regex():
    rng = random.Random(202)
    patterns = ["GGTCTCN(NNNN)(NN*N)(NNNN)NGAGACC", "(AC)(N*?)(GT)", "RYKM(B)(D)(H)V", "N(NNNN)(NGAGACCN*GGTCTCN)(NNNN)N", "A(C*)(G*)(T*)"]
    for p in patterns:
        rx = DNARegex(p)
        log("B", p, rx.pattern, rx.regex.pattern)
        for n in range(12):
            s = random_dna(rng, rng.randrange(4, 30))
            if n % 3 == 0:
                s = "GGTCTCA" + random_dna(rng, 4) + s + random_dna(rng, 4) + "AGAGACC"
                k = rng.randrange(0, len(s))
                s = s[k:] + s[:k]
            if n % 4 == 1:
                s = s.lower()
            targets = [Seq(s), SeqRecord(Seq(s), id="s"), CircularRecord(Seq(s), id="c")]
            for t in targets:
                for kw in ({}, {"linear": False}, {"pos": 2}, {"pos": 1, "endpos": 5}, {"linear": True}):
                    st, m, w = outcome(rx.search, t, **kw)
                    if st != "ok":
                        log("B", type(t).__name__, s, kw, st, m)
                    elif m is None:
                        log("B", type(t).__name__, s, kw, None)
                    else:
                        groups = []
                        for g in range(0, rx.regex.groups + 1):
                            gs, gv, _ = outcome(m.group, g)
                            groups.append((gs, str(gv.seq) if isinstance(gv, SeqRecord) else str(gv), type(gv).__name__, m.span(g)))
                        log("B", type(t).__name__, s, kw, m.start(), m.end(), m.shift, groups)
        for bad in ("ACGT", None, 3, b"ACGT"):
            log("B", p, "bad", outcome(rx.search, bad)[:2])
    log("B", "lettermap", sorted(DNARegex._lettermap.items()), len(DNARegex._lettermap), DNARegex._lettermap.get("N"), "Z" in DNARegex._lettermap)
    log("B", "transcribe", DNARegex._transcribe("ANBZ(x)*"))


# --- section C: classes ------------------------------------------------------

KIT_MODULES = [
    ("core.modules", core_modules),
    ("core.vectors", core_vectors),
    ("core.parts", core_parts),
    ("cidar", cidar),
    ("ecoflex", ecoflex),
    ("moclo", moclo_kit),
    ("plant", plant),
    ("ytk", ytk),
]
PUBLIC_CORE = [
    AbstractModule, AbstractVector, AbstractPart, Product, Entry, Cassette, Device,
    EntryVector, CassetteVector, DeviceVector,
]


def kit_classes():
    seen = []
    for modname, module in KIT_MODULES:
        for name in sorted(vars(module)):
            obj = getattr(module, name)
            if inspect.isclass(obj) and issubclass(obj, (AbstractModule, AbstractVector, AbstractPart)):
                if obj.__module__ == module.__name__ and obj not in [c for _, c in seen]:
                    seen.append((modname, obj))
    return seen


def section_classes():
    from moclo._utils import isabstract

    classes = kit_classes()
    names = set(c.__name__ for _, c in classes)
    dummy = CircularRecord(Seq("ACGTACGTACGTAGCTAGCTAGCATCGATCGATCAGCTAGCTAGCTAC"), id="dummy")
    for modname, cls in classes:
        bases = [b.__name__ for b in cls.__mro__ if b.__name__ in names]
        st, struct, _ = outcome(cls.structure)
        cutter = getattr(cls, "cutter", None)
        log(
            "C", modname, cls.__name__, bases,
            "cutter=" + (cutter.__name__ if inspect.isclass(cutter) else repr(cutter)),
            "level=" + repr(getattr(cls, "_level", "n/a")),
            "sig=" + repr(getattr(cls, "signature", "n/a")),
            "abstract=" + repr(isabstract(cls)),
            st, struct,
            [issubclass(cls, c) for c in PUBLIC_CORE],
            "importable=" + repr(getattr(sys.modules[cls.__module__], cls.__name__) is cls),
        )
        st, inst, _ = outcome(cls, dummy)
        if st == "ok":
            log("C", cls.__name__, "instance", inst.record is dummy, inst.seq is dummy.seq, outcome(inst.is_valid)[:2],
                outcome(inst.overhang_start)[:2] if hasattr(inst, "overhang_start") else "-",
                outcome(inst.target_sequence)[0] if hasattr(inst, "target_sequence") else "-")
            st2, rx, _ = outcome(cls._get_regex)
            log("C", cls.__name__, "regex", st2, rx.pattern if st2 == "ok" else rx, (cls._get_regex() is rx) if st2 == "ok" else "-",
                "_regex" in cls.__dict__)
        else:
            log("C", cls.__name__, "instance", st, inst)
        for method in ("overhang_start", "overhang_end", "target_sequence", "placeholder_sequence", "assemble", "structure", "is_valid", "characterize"):
            log("C", cls.__name__, "has", method, callable(getattr(cls, method, None)))
    log("C", "dummy-unchanged", short(snapshot(dummy)))

    # classes declared on the fly, like users do
    class NoCutterModule(AbstractModule):
        pass

    class BluntModule(AbstractModule):
        cutter = Restriction.SmaI

    class NoCutterVector(AbstractVector):
        pass

    class NoSigPart(AbstractPart, Entry):
        cutter = Restriction.BsaI

    class LonePart(AbstractPart):
        cutter = Restriction.BsaI
        signature = ("ATGC", "CCCC")

    class UserPart(AbstractPart, Entry):
        cutter = Restriction.BsaI
        signature = ("ATGC", "ATTC")

    class UserVectorPart(AbstractPart, CassetteVector):
        cutter = Restriction.BsmBI
        signature = ("ATGC", "ATTC")

    class PartWithoutCutter(AbstractPart, ytk.YTKEntry):
        signature = ("ATGC", "ATTC")

    for cls in (NoCutterModule, BluntModule, NoCutterVector, NoSigPart, LonePart, UserPart, UserVectorPart, PartWithoutCutter, AbstractModule, AbstractVector, AbstractPart):
        log("C", "user", cls.__name__, outcome(cls, dummy)[:2] if outcome(cls, dummy)[0] != "ok" else "ok", outcome(cls.structure)[:2], isabstract(cls),
            repr(cls.cutter) if not inspect.isclass(cls.cutter) else cls.cutter.__name__)
    good = CircularRecord(Seq("TTGGTCTCAATGCACGTACGTATTCTGAGACCTT"), id="good")
    part = UserPart(good)
    log("C", "userpart", part.is_valid(), str(part.overhang_start()), str(part.overhang_end()), show_result(part.target_sequence()))
    LOG.append(snapshot(part.target_sequence()))
    log("C", "characterize", type(UserPart.characterize(good)).__name__, outcome(UserPart.characterize, dummy)[:2])
    for base in (ytk.YTKPart, cidar.CIDARPart, ecoflex.EcoFlexPart, moclo_kit.MoCloPart):
        log("C", "characterize", base.__name__, outcome(base.characterize, dummy)[:2], outcome(base.characterize, good)[:2] if outcome(base.characterize, good)[0] != "ok" else type(base.characterize(good)).__name__)


# --- section D: registries ---------------------------------------------------


def registries():
    from moclo.registry.ytk import YTKRegistry, PTKRegistry
    from moclo.registry.cidar import CIDARRegistry
    from moclo.registry.ecoflex import EcoFlexRegistry
    from moclo.registry.plant import PlantRegistry

    warnings.simplefilter("ignore")  # parser warnings of the bundled files
    return [
        ("ytk", YTKRegistry()), ("ptk", PTKRegistry()), ("cidar", CIDARRegistry()),
        ("ecoflex", EcoFlexRegistry()), ("plant", PlantRegistry()),
    ]


def section_registries(regs):
    for name, reg in regs:
        log("D", name, len(reg))
        for key in sorted(reg):
            item = reg[key]
            ent = item.entity
            before = snapshot(ent.record)
            row = [type(ent).__name__, item.resistance, outcome(ent.is_valid)[1]]
            for method in ("overhang_start", "overhang_end"):
                st, val, _ = outcome(getattr(ent, method))
                row.append(str(val))
            st, val, w = outcome(ent.target_sequence)
            row.append(show_result(val) if st == "ok" else val)
            if isinstance(ent, AbstractVector):
                st, val, w = outcome(ent.placeholder_sequence)
                row.append(show_result(val) if st == "ok" else val)
            row.append(snapshot(ent.record) == before)
            log("D", name, key, *row)


# --- section E: assemblies ---------------------------------------------------


def section_generated():
    rng = random.Random(303)
    n = 0
    for enzyme in ENZYMES:
        for rotate in (False, True):
            for case in ("upper", "lower", "mixed"):
                for n_modules in (1, 2, 3, 5):
                    n += 1
                    tag = "E{}".format(n)
                    opts = {"rotate": rotate, "case": case, "cited": n % 5 != 0}
                    vector, mods, ovs = build_case(rng, enzyme, n_modules, opts)
                    log(tag, enzyme.__name__, rotate, case, n_modules, ovs)
                    shuffled = list(mods)
                    rng.shuffle(shuffled)
                    calls = [(shuffled, {}), (list(mods), {"id": "second", "name": "again"})]
                    if n_modules > 1:
                        j = rng.randrange(0, n_modules)
                        partial = [m for i, m in enumerate(mods) if i != j]
                        calls.insert(0, (partial, {}))  # fails, then retry with all
                        calls.append((partial, {"name": "partial"}))
                        calls.append((list(mods), {}))
                    run_history(tag, vector, calls)
    return n


def section_failures():
    rng = random.Random(404)
    enzyme = Restriction.BpiI
    vcls, mcls = MOCKS[enzyme]
    geo = Geometry(enzyme)
    forb = geo.forbidden()

    # unused modules, as a warning and as an error, then again without them
    for n in range(6):
        tag = "F-unused{}".format(n)
        vector, mods, ovs = build_case(rng, enzyme, 2, {"rotate": n % 2 == 1})
        _, extra, _ = build_case(rng, enzyme, 1 + n % 2, {})
        calls = [
            (mods + extra, {}),
            (mods + extra, {"_warnings": "error"}),
            (extra + mods, {"_warnings": "error"}),
            (mods, {}),
            (extra, {}),
        ]
        run_history(tag, vector, calls)

    # duplicates: same start overhang, reverse-complementing overhangs
    for n in range(4):
        tag = "F-dup{}".format(n)
        vector, mods, ovs = build_case(rng, enzyme, 3, {})
        twin_seq = geo.module(rng, ovs[1], ovs[3], random_dna(rng, 9, forb), "AA", "TT")
        twin = mcls(decorate(rng, make_record(rng, twin_seq, "twin", "circular", n % 2, "upper"), "twin", 2, 3))
        anti_seq = geo.module(rng, rc(ovs[1]), rc(ovs[0]), random_dna(rng, 9, forb), "AA", "TT")
        anti = mcls(decorate(rng, make_record(rng, anti_seq, "anti", "circular", n % 2, "upper"), "anti", 2, 3))
        run_history(tag, vector, [(mods + [twin], {}), ([twin] + mods, {}), (mods + [anti], {}), (mods, {}), ([mods[0], twin, mods[0]], {}), (mods + mods, {})])

    # invalid vectors
    for n in range(4):
        tag = "F-vec{}".format(n)
        vector, mods, ovs = build_case(rng, enzyme, 2, {})
        same = geo.vector(rng, ovs[0], ovs[0], "ACGTACGT", "CCC", "GGG")
        same_lower = geo.vector(rng, ovs[0].lower(), ovs[0], "ACGTACGT", "CCC", "GGG")
        nosite = random_dna(rng, 60, forb)
        third = geo.vector(rng, ovs[2], ovs[0], "ACGT" + geo.site + "ACGT", "CCC", "GGG")
        for label, s in (("same", same), ("same-lower", same_lower), ("nosite", nosite), ("third-site", third)):
            bad = vcls(decorate(rng, make_record(rng, s, label, "circular", False, "upper"), label, 2, 3))
            run_history(tag + label, bad, [(mods, {}), (mods, {})])
            log(tag + label, "valid", outcome(bad.is_valid)[:2], outcome(bad.is_valid)[:2])
        run_history(tag + "good", vector, [(mods, {})])

    # modules that do not match / carry an illegal site / become invalid
    for n in range(4):
        tag = "F-mod{}".format(n)
        vector, mods, ovs = build_case(rng, enzyme, 3, {"rotate": True})
        junk = mcls(decorate(rng, make_record(rng, random_dna(rng, 50, forb), "junk", "circular", False, "upper"), "junk", 1, 2))
        illegal_seq = geo.module(rng, ovs[1], ovs[2], "ACGT" + "ACGT", "AA" + geo.site + "CCCCCCCCC", "TT")
        illegal = mcls(decorate(rng, make_record(rng, illegal_seq, "illegal", "circular", False, "upper"), "illegal", 2, 3))
        run_history(tag + "junk", vector, [([mods[0], junk, mods[2]], {}), (mods, {})])
        run_history(tag + "illegal", vector, [([mods[0], illegal, mods[2]], {}), ([mods[0], illegal, mods[2]], {}), (mods, {})])
        log(tag, "valid", outcome(illegal.is_valid)[:2], outcome(junk.is_valid)[:2])
        # becomes invalid: the record is edited after the module was matched once
        vector, mods, ovs = build_case(rng, enzyme, 2, {})
        fresh = mcls(copy.deepcopy(mods[1].record))
        run_history(tag + "fresh", vector, [([mods[0], fresh], {})])
        fresh.record.seq = Seq(random_dna(rng, len(fresh.record.seq), forb))
        run_history(tag + "edited", vector, [([mods[0], fresh], {}), (mods, {})])
        unmatched = mcls(copy.deepcopy(mods[1].record))
        unmatched.record.seq = Seq(random_dna(rng, len(fresh.record.seq), forb))
        run_history(tag + "edited-before", vector, [([mods[0], unmatched], {}), (mods, {})])

    # plain records: the j-th extraction fails after j modules were consumed
    kinds = ["plain", "plain-bare", "linear", "circular-bare"]
    n = 0
    for n_modules in (1, 2, 4):
        for j in range(0, n_modules + 1):
            for kind in kinds:
                n += 1
                tag = "F-kind{}".format(n)
                vector, mods, ovs = build_case(rng, enzyme, n_modules, {"kinds": {j: kind}, "rotate": False})
                log(tag, n_modules, j, kind)
                run_history(tag, vector, [(mods, {}), (mods, {})])
                # retry with a corrected element
                fixed = make_record(rng, str(vector.record.seq if j == 0 else mods[j - 1].record.seq), "fixed", "circular", False, "upper")
                if j == 0:
                    v2 = type(vector)(fixed)
                    run_history(tag + "retry", v2, [(mods, {})])
                else:
                    mods2 = list(mods)
                    mods2[j - 1] = type(mods[0])(fixed)
                    run_history(tag + "retry", vector, [(mods2, {}), (mods, {})])

    # odd citations
    n = 0
    for style in ("bad", "far", "zero", "empty"):
        for j in range(0, 3):
            n += 1
            tag = "F-cite{}".format(n)
            vector, mods, ovs = build_case(rng, enzyme, 2, {"cite_styles": {j: style}})
            log(tag, style, j)
            run_history(tag, vector, [(mods, {}), (mods, {})])

    # citation qualifiers of unusual types, shared references, no reference list
    vector, mods, ovs = build_case(rng, enzyme, 2, {"cited": False})
    shared = make_reference("shared")
    for i, rec in enumerate([vector.record, mods[0].record, mods[1].record]):
        rec.annotations["references"] = [make_reference("own %d" % i), shared, make_reference("own %d" % i)]
        rec.features.append(SeqFeature(FeatureLocation(0, len(rec)), type="source", qualifiers={"citation": ["[2]", "[3]", "[1]"]}))
        where = rec.seq.upper().find(ovs[i if i else 2]) if i else 0
        rec.features.append(SeqFeature(FeatureLocation(0, 1), type="misc", qualifiers={"citation": ["[3]"], "note": "x"}))
    run_history("F-shared", vector, [(mods, {}), (mods, {}), (mods[:1], {}), (mods, {})])
    vector, mods, ovs = build_case(rng, enzyme, 1, {"cited": False})
    mods[0].record.features.append(SeqFeature(FeatureLocation(0, 2), type="misc", qualifiers={"citation": "[1]"}))
    run_history("F-strcite", vector, [(mods, {})])
    vector, mods, ovs = build_case(rng, enzyme, 1, {"cited": False})
    mods[0].record.features.append(SeqFeature(FeatureLocation(0, 2), type="misc", qualifiers={"citation": ("[1]",)}))
    mods[0].record.annotations["references"] = [make_reference("t")]
    run_history("F-tuplecite", vector, [(mods, {})])
    vector, mods, ovs = build_case(rng, enzyme, 1, {"cited": False})
    mods[0].record.features.append(SeqFeature(FeatureLocation(0, 2), type="misc", qualifiers={"citation": ["[1]"]}))
    run_history("F-norefs", vector, [(mods, {})])
    vector, mods, ovs = build_case(rng, enzyme, 1, {"cited": False})
    vector.record.features.append(SeqFeature(None, type="misc", qualifiers={"citation": []}))
    run_history("F-noloc", vector, [(mods, {})])

    # the same record object behind the vector and a module, or two modules
    vector, mods, ovs = build_case(rng, enzyme, 2, {})
    alias = mcls(mods[0].record)
    run_history("F-alias", vector, [([alias, mods[1]], {}), ([mods[0], alias, mods[1]], {}), (mods, {})])

    # 3' overhang geometry (hand-written structures)
    for n in range(6):
        tag = "F-three{}".format(n)
        o = unique_overhangs(rng, 3, 2)
        f3 = ("GCAGTG", "CACTGC")
        while True:
            vs = random_dna(rng, 8, f3) + o[0] + "CACTGC" + random_dna(rng, 7, f3) + "GCAGTG" + o[2] + random_dna(rng, 9, f3)
            m1 = random_dna(rng, 5, f3) + "GCAGTG" + o[0] + random_dna(rng, 11, f3) + o[1] + "CACTGC" + random_dna(rng, 4, f3)
            m2 = random_dna(rng, 5, f3) + "GCAGTG" + o[1] + random_dna(rng, 11, f3) + o[2] + "CACTGC" + random_dna(rng, 4, f3)
            if all(count_circular(s, f3[0]) == 1 and count_circular(s, f3[1]) == 1 for s in (vs, m1, m2)):
                break
        recs = [decorate(rng, make_record(rng, s, l, "circular", n % 2, "upper"), l, 2, 4) for s, l in ((vs, "v3"), (m1, "m3a"), (m2, "m3b"))]
        vector = ThreePrimeVector(recs[0])
        mods = [ThreePrimeModule(recs[1]), ThreePrimeModule(recs[2])]
        log(tag, str(vector.overhang_start()), str(vector.overhang_end()), outcome(vector.placeholder_sequence)[0], show_result(vector.target_sequence()), show_result(mods[0].target_sequence()))
        run_history(tag, vector, [(mods[:1], {}), (mods, {}), (mods, {})])


def add_citations(rng, record, label):
    record.annotations["references"] = [make_reference("{} paper {}".format(label, i)) for i in range(2)]
    for feature in record.features[:: max(1, len(record.features) // 6)]:
        feature.qualifiers["citation"] = ["[{}]".format(rng.randrange(1, 3))]
    return record


def section_kits(regs):
    rng = random.Random(505)
    regs = dict(regs)
    recipes = [
        ("cidar", "DVK_AE", ["J23102_AB", "BCD2_BC", "E1010m_CD", "B0015_DE"]),
        ("cidar", "DVA_EF", ["J23102_EB", "BCD2_BC", "E1010m_CD", "B0015_DF"]),
        ("cidar", "DVA_AE", ["J23102_AB", "BCD2_BC", "E1010m_CD", "B0015_DE"]),
    ]
    for regname, vec_id, mod_ids in recipes:
        reg = regs[regname]
        for cited in (False, True):
            tag = "K-{}-{}-{}".format(regname, vec_id, cited)
            vent = reg[vec_id].entity
            vector = type(vent)(copy.deepcopy(vent.record))
            mods = [type(reg[m].entity)(copy.deepcopy(reg[m].entity.record)) for m in mod_ids]
            if cited:
                add_citations(rng, vector.record, vec_id)
                for m, i in zip(mods, mod_ids):
                    add_citations(rng, m.record, i)
            run_history(tag, vector, [(mods[:-1], {}), (mods, {}), (list(reversed(mods)), {"id": vec_id + "-x"}), (mods[1:], {}), (mods, {})])
    # every registry: try to put every module of a registry in every vector of
    # the same registry, one at a time (mostly failures, at different points)
    for regname in ("ytk", "cidar", "ecoflex", "plant"):
        reg = regs[regname]
        items = [reg[k] for k in sorted(reg)]
        vectors = [i for i in items if isinstance(i.entity, AbstractVector)][:4]
        modules = [i for i in items if isinstance(i.entity, AbstractModule)][:12]
        for v in vectors:
            vector = type(v.entity)(add_citations(rng, copy.deepcopy(v.entity.record), v.id))
            for m in modules:
                module = type(m.entity)(add_citations(rng, copy.deepcopy(m.entity.record), m.id))
                run_history("K-{}-{}-{}".format(regname, v.id, m.id), vector, [([module], {}), ([module], {})])


def main():
    warnings.simplefilter("ignore", DeprecationWarning)
    section_records()
    section_regex()
    section_classes()
    regs = registries()
    section_registries(regs)
    n = section_generated()
    section_failures()
    section_kits(regs)
    text = "\n".join(LOG)
    text = text.replace("/tmp/agents8/C07", "<root>")
    text = re.sub(r" at 0x[0-9a-fA-F]+", " at 0x?", text)
    dump = os.environ.get("EQUIV_DUMP")
    if dump:
        with open(dump, "w") as handle:
            handle.write(text)
    calls = sum(1 for line in LOG if " call " in line and " after " in line)
    print("lines: {}  assemble calls: {}  generated cases: {}".format(len(LOG), calls, n))
    print("digest: {}".format(hashlib.sha256(text.encode("utf-8")).hexdigest()))


if __name__ == "__main__":
    main()
