# coding: utf-8
"""Differential test: prints a digest of the observable behaviour of the code
touched by the pull request (class families of the kits, structures, matching,
assembly, citations, registries) on generated inputs.
"""
from __future__ import print_function

import hashlib
import inspect
import os
import random
import re
import sys
import warnings

sys.path.insert(0, "/tmp/agents8/C11")
warnings.simplefilter("ignore")
import tests  # noqa: E402,F401

from Bio.Seq import Seq  # noqa: E402
from Bio.SeqRecord import SeqRecord  # noqa: E402
from Bio.SeqFeature import SeqFeature, FeatureLocation, Reference  # noqa: E402
from Bio.Restriction import BsaI, BpiI, BbsI, BsmBI, SapI, EcoRI, EcoRV, SacI  # noqa: E402

from moclo import errors  # noqa: E402,F401
from moclo.record import CircularRecord  # noqa: E402
from moclo.regex import DNARegex  # noqa: E402
from moclo._utils import isabstract  # noqa: E402
from moclo.core import AbstractVector, AbstractModule, AbstractPart  # noqa: E402
from moclo.core import modules as core_modules, vectors as core_vectors, parts as core_parts  # noqa: E402
from moclo.kits import cidar, ecoflex, moclo, plant, ytk  # noqa: E402

LINES = []


def emit(*args):
    line = " | ".join(str(a) for a in args)
    LINES.append(re.sub(r" at 0x[0-9a-fA-F]+", " at 0x?", line))


def call(label, func, *args, **kwargs):
    """Call and log the result (or the exception) and the warnings."""
    with warnings.catch_warnings(record=True) as caught:
        warnings.simplefilter("always")
        try:
            res = func(*args, **kwargs)
            out = ("ok", describe(res))
        except Exception as err:  # noqa
            res = None
            out = ("raise", type(err).__name__, str(err), [c.__name__ for c in type(err).__mro__])
    warns = [(w.category.__name__, str(w.message)) for w in caught]
    emit(label, out, warns)
    return res


def describe_feature(f):
    quals = sorted((k, [str(x) for x in v] if isinstance(v, list) else str(v)) for k, v in f.qualifiers.items())
    return (f.type, str(f.location), f.id, quals)


def describe(obj):
    if isinstance(obj, SeqRecord):
        ants = sorted((k, str(v)) for k, v in obj.annotations.items())
        return (
            type(obj).__name__,
            str(obj.seq),
            obj.id,
            obj.name,
            obj.description,
            ants,
            [describe_feature(f) for f in obj.features],
        )
    if isinstance(obj, Seq):
        return ("Seq", str(obj))
    if isinstance(obj, (list, tuple)):
        return [describe(x) for x in obj]
    if isinstance(obj, (bool, int, str, type(None))):
        return obj
    return type(obj).__name__


# --- generation -------------------------------------------------------------

SITES = ("GGTCTC", "GAGACC", "GAAGAC", "GTCTTC", "CGTCTC", "GAGACG")
OVERHANGS = ["ACTA", "GGCA", "TTAC", "CAGA", "AGGC", "TCAA", "CTTG", "ATGG"]


def occurrences(site, text):
    return len(re.findall("(?=%s)" % site, text))


def count_sites(seq):
    s = seq.upper()
    s = s + s[:5]
    return sum(occurrences(site, s) for site in SITES)


def rand(rng, n):
    return "".join(rng.choice("ACGT") for _ in range(n))


def instantiate(pattern, rng, fillers, backbone=40):
    tokens = re.findall(r"\((?:N\*\??|[A-Z])*\)|N\*\??|[A-Z]", pattern)
    for _ in range(2000):
        out, skeleton, group = [], [], 0
        for tok in tokens:
            if tok.startswith("("):
                filler = fillers[group] if group < len(fillers) else None
                group += 1
                if filler is not None:
                    out.append(filler)
                    skeleton.append(filler)
                    continue
                sub = re.findall(r"N\*\??|[A-Z]", tok[1:-1])
            else:
                sub = [tok]
            for t in sub:
                if t.startswith("N*"):
                    out.append(rand(rng, rng.randint(2, 20)))
                    skeleton.append("N")
                elif t == "N":
                    out.append(rand(rng, 1))
                    skeleton.append("N")
                elif t in "ACGT":
                    out.append(t)
                    skeleton.append(t)
                else:  # other IUPAC codes: not used by the kits
                    out.append("A")
                    skeleton.append("A")
        seq = "".join(out) + rand(rng, backbone)
        if count_sites(seq) == count_sites("".join(skeleton) + "N" * 6):
            return seq
    raise RuntimeError("could not instantiate " + pattern)


def make_insert(rng, n, up, down):
    while True:
        s = rand(rng, n)
        if count_sites("NNNNNN" + up + s + down + "NNNNNN") == 0:
            return s


def recase(seq, case, rng):
    if case == "lower":
        return seq.lower()
    if case == "mixed":
        return "".join(c.lower() if rng.random() < 0.5 else c for c in seq)
    return seq


def with_features(rec, rng, cite=None):
    n = len(rec)
    for k in range(3):
        a = rng.randrange(n - 1)
        b = rng.randrange(a + 1, n + 1)
        quals = {"label": ["f%d" % k], "note": "n%d" % k}
        if cite is not None and k == 0:
            quals["citation"] = list(cite)
        rec.features.append(SeqFeature(FeatureLocation(a, b, strand=rng.choice((1, -1))), type="misc_feature", qualifiers=quals))
    return rec


def make_ref(title):
    ref = Reference()
    ref.title = title
    ref.authors = "Doe J."
    ref.journal = "J. Irreproducible Results"
    return ref


def state(entity):
    rec = entity.record
    refs = [str(r) for r in rec.annotations.get("references", [])]
    return (describe(rec), refs)


# --- 1. class families --------------------------------------------------------

KITS = [cidar, ecoflex, moclo, plant, ytk]
CORE = [core_modules, core_vectors, core_parts]


def classes_of(mod):
    out = []
    for name, cls in sorted(inspect.getmembers(mod, inspect.isclass)):
        if cls.__module__ == mod.__name__:
            out.append(cls)
    return out


def all_classes():
    seen = []
    for mod in CORE + KITS:
        for cls in classes_of(mod):
            if cls not in seen:
                seen.append(cls)
    return seen


def check_classes():
    classes = all_classes()
    for cls in classes:
        emit("class", cls.__module__, cls.__name__, [b.__name__ for b in cls.__mro__ if b.__module__.startswith("moclo")])
        emit("  attrs", getattr(cls, "_level", "-"), getattr(getattr(cls, "cutter", None), "__name__", str(getattr(cls, "cutter", None))), getattr(cls, "signature", "-"), isabstract(cls))
        call("  structure", cls.structure) if hasattr(cls, "structure") else None
        if hasattr(cls, "structure"):
            call("  structure again", lambda: cls.structure() == cls.structure())
            call("  regex", lambda: cls._get_regex().pattern)
            call("  regex cached", lambda: cls._get_regex() is cls._get_regex())
            doc = inspect.getdoc(cls) or ""
            emit("  doc", hashlib.sha256(doc.encode("utf-8")).hexdigest()[:12])
    for a in classes:
        emit("subclasses", a.__name__, [b.__name__ for b in classes if b is not a and issubclass(b, a)])
    for mod in KITS:
        emit("public", mod.__name__, sorted(n for n in dir(mod) if not n.startswith("_")))
        emit("version", mod.__name__, mod.__version__, mod.__author__)


# --- 2. matching ----------------------------------------------------------------


def concrete_classes():
    out = []
    for cls in all_classes():
        if not hasattr(cls, "structure"):
            continue
        try:
            cls.structure()
            cls(SeqRecord(Seq("A")))
        except Exception:
            continue
        out.append(cls)
    return out


def probe(label, entity):
    call(label + " valid", entity.is_valid)
    call(label + " valid (again)", entity.is_valid)
    call(label + " start", entity.overhang_start) if hasattr(entity, "overhang_start") else None
    call(label + " end", entity.overhang_end) if hasattr(entity, "overhang_end") else None
    call(label + " target", entity.target_sequence) if hasattr(entity, "target_sequence") else None
    if hasattr(entity, "placeholder_sequence"):
        call(label + " placeholder", entity.placeholder_sequence)
    emit(label + " state", state(entity))


def check_matching(rng):
    classes = concrete_classes()
    emit("concrete", [c.__name__ for c in classes])
    for cls in classes:
        pattern = cls.structure()
        for k in range(3):
            up, down = rng.sample(OVERHANGS, 2)
            try:
                seq = instantiate(pattern, rng, [])
            except RuntimeError:
                emit("no instance", cls.__name__)
                break
            case = ("upper", "lower", "mixed")[k]
            seq = recase(seq, case, rng)
            n = len(seq)
            rec = with_features(CircularRecord(Seq(seq), id="rec", name="rec"), rng)
            for rot in (0, 1, rng.randrange(n), n - 1):
                probe("%s %s rot%d" % (cls.__name__, case, k), cls(rec >> rot))
            # the same sequence in all the other classes of the same kit
            if k == 0:
                for other in classes:
                    if other.__module__ == cls.__module__ and other is not cls:
                        call("%s as %s" % (cls.__name__, other.__name__), other(rec).is_valid)
            # linear records, plain SeqRecord
            lin = SeqRecord(Seq(seq), id="lin", name="lin")
            probe("%s %s plain" % (cls.__name__, case), cls(lin))
            lin2 = SeqRecord(Seq(seq[n // 2:] + seq[: n // 2]), id="lin2", annotations={"topology": "linear"})
            probe("%s %s linear" % (cls.__name__, case), cls(lin2))
            lin3 = SeqRecord(Seq(seq[n // 2:] + seq[: n // 2]), id="lin3", annotations={"topology": "Circular"})
            probe("%s %s circular annotation" % (cls.__name__, case), cls(lin3))
            # one more site of the cutter in the backbone / in the middle
            site = cls.cutter.site
            extra = CircularRecord(Seq(seq + "AAAA" + site + "AAAA"), id="extra")
            probe("%s extra site" % cls.__name__, cls(extra))
            # garbage
            probe("%s garbage" % cls.__name__, cls(CircularRecord(Seq(rand(rng, 30)), id="garbage")))
    # classes without cutter / signature
    for cls in (AbstractVector, AbstractModule, AbstractPart, cidar.CIDARPart, ytk.YTKPart, moclo.MoCloPart, ecoflex.EcoFlexPart):
        call("instantiate " + cls.__name__, cls, SeqRecord(Seq("ATGC")))
        call("structure " + cls.__name__, cls.structure)
    for enz in (SapI, EcoRI, EcoRV, SacI, BsaI):
        for base in (AbstractVector, AbstractModule):
            cls = type(str("Custom"), (base,), {"cutter": enz})
            call("custom %s %s structure" % (base.__name__, enz.__name__), cls.structure)
            call("custom %s %s new" % (base.__name__, enz.__name__), cls, SeqRecord(Seq("ATGC")))
        for base in (core_modules.Entry, core_vectors.CassetteVector):
            cls = type(str("CustomPart"), (AbstractPart, base), {"cutter": enz, "signature": ("ATGC", "TTAC")})
            call("custom part %s %s structure" % (base.__name__, enz.__name__), cls.structure)
    # characterize
    for part_cls in (cidar.CIDARPart, ecoflex.EcoFlexPart, moclo.MoCloPart, ytk.YTKPart):
        subs = [c for c in classes if issubclass(c, part_cls) and c is not part_cls]
        for sub in subs:
            try:
                seq = instantiate(sub.structure(), rng, [])
            except RuntimeError:
                continue
            rec = CircularRecord(Seq(seq), id="p")
            call("characterize %s/%s" % (part_cls.__name__, sub.__name__), lambda: type(part_cls.characterize(rec)).__name__)
        call("characterize garbage " + part_cls.__name__, part_cls.characterize, CircularRecord(Seq("ATGCATGC"), id="g"))


# --- 3. assemblies ----------------------------------------------------------------

TRIPLES = [
    (cidar.CIDAREntryVector, cidar.CIDARProduct, cidar.CIDAREntry),
    (cidar.CIDARCassetteVector, cidar.CIDAREntry, cidar.CIDARCassette),
    (cidar.CIDARDeviceVector, cidar.CIDARCassette, cidar.CIDARDevice),
    (ecoflex.EcoFlexCassetteVector, ecoflex.EcoFlexEntry, ecoflex.EcoFlexCassette),
    (ecoflex.EcoFlexDeviceVector, ecoflex.EcoFlexCassette, ecoflex.EcoFlexDevice),
    (moclo.MoCloEntryVector, moclo.MoCloProduct, moclo.MoCloEntry),
    (moclo.MoCloCassetteVector, moclo.MoCloEntry, moclo.MoCloCassette),
    (moclo.MoCloSingleCassetteVector, moclo.MoCloEntry, moclo.MoCloCassette),
    (moclo.MoCloDeviceVector, moclo.MoCloCassette, moclo.MoCloCassette),
    (ytk.YTKCassetteVector, ytk.YTKEntry, ytk.YTKCassette),
    (ytk.YTKDeviceVector, ytk.YTKCassette, ytk.YTKCassette),
]


def check_assemblies(rng):
    count = 0
    for vec_cls, mod_cls, next_cls in TRIPLES:
        for variant in range(12):
            count += 1
            label = "asm %s #%d" % (vec_cls.__name__, variant)
            case = ("upper", "lower", "mixed")[variant % 3]
            n_inserts = 1 + variant % 3
            ovhs = rng.sample(OVERHANGS, n_inserts + 1)
            inserts = [make_insert(rng, rng.choice((2, 3, 11)), ovhs[i], ovhs[i + 1]) for i in range(n_inserts)]
            vseq = recase(instantiate(vec_cls.structure(), rng, [ovhs[0], None, ovhs[-1]]), case, rng)
            refs = [make_ref("vector paper"), make_ref("shared paper")]
            vrec = CircularRecord(Seq(vseq), id="vec", name="vec", annotations={"references": refs, "topology": "circular"})
            with_features(vrec, rng, cite=["[2]", "[1]"] if variant % 2 else None)
            mods = []
            for i, ins in enumerate(inserts):
                mseq = recase(instantiate(mod_cls.structure(), rng, [ovhs[i], ins, ovhs[i + 1]]), case, rng)
                mrec = CircularRecord(Seq(mseq), id="mod%d" % i, name="mod%d" % i)
                if variant % 4 == 1:
                    mrec.annotations["references"] = [make_ref("shared paper"), make_ref("module %d paper" % i)]
                    with_features(mrec, rng, cite=["[1]", "[2]"])
                else:
                    with_features(mrec, rng)
                mods.append(mod_cls(mrec >> rng.randrange(len(mrec))))
            vec = vec_cls(vrec >> rng.randrange(len(vrec)))
            # failure modes
            if variant == 7 and len(mods) > 1:
                mods = mods[:-1]  # missing module
            elif variant == 6:
                dup = mod_cls(CircularRecord(mods[0].record.seq, id="dup"))
                mods = mods + [dup]  # duplicate
            elif variant == 8:
                o = [x for x in OVERHANGS if x not in ovhs][:2]
                useq = instantiate(mod_cls.structure(), rng, [o[0], "ACGTAC", o[1]])
                mods = mods + [mod_cls(CircularRecord(Seq(useq), id="unused"))]
            elif variant == 9:
                # reverse-complementing overhangs
                o = str(Seq(ovhs[0]).reverse_complement())
                o2 = [x for x in OVERHANGS if x not in ovhs][0]
                useq = instantiate(mod_cls.structure(), rng, [o, "ACGTAC", o2])
                mods = mods + [mod_cls(CircularRecord(Seq(useq), id="revcomp"))]
            elif variant == 10:
                mods[0].record.features[0].qualifiers["citation"] = ["[x]"]
            elif variant == 11:
                # vector with identical overhangs
                vseq = instantiate(vec_cls.structure(), rng, [ovhs[0], None, ovhs[0]])
                vec = vec_cls(CircularRecord(Seq(vseq), id="same"))
            order = list(mods)
            rng.shuffle(order)
            kwargs = {} if variant % 2 else {"id": "asm%d" % variant, "name": "construct"}
            product = call(label, vec.assemble, *order, **kwargs)
            emit(label + " vector state", state(vec))
            for m in mods:
                emit(label + " module state", state(m))
            if product is None:
                continue
            # same assembly again with the same (reused) objects
            call(label + " again", lambda: str(vec.assemble(*order, **kwargs).seq) == str(product.seq))
            # next level
            for rot in (0, 1, len(product) // 2, len(product) - 1):
                nxt = next_cls(product >> rot)
                probe(label + " next rot%d" % rot, nxt)
            nxt = next_cls(product)
            if nxt.is_valid():
                gv = type(str("GenericVector"), (AbstractVector,), {"cutter": next_cls.cutter})
                gseq = instantiate(gv.structure(), rng, [str(nxt.overhang_start()).upper(), None, str(nxt.overhang_end()).upper()])
                gvec = gv(CircularRecord(Seq(gseq), id="generic"))
                call(label + " second level", gvec.assemble, nxt)
                emit(label + " product state", state(nxt))
    # YTK products in the entry vector
    for size in (2, 5, 17):
        for case in ("upper", "lower"):
            t1, t2 = rng.sample(OVERHANGS, 2)
            template = make_insert(rng, size, t1, t2)
            vseq = recase(instantiate(ytk.YTKEntryVector.structure(), rng, ["ATGG", None, "GACC"]), case, rng)
            pseq = recase(instantiate("CGTCTCN(NNGG)(N)(GACC)NGAGACG", rng, ["ATGG", "TCTCA" + t1 + template + t2 + "TGA", "GACC"]), case, rng)
            vec = ytk.YTKEntryVector(CircularRecord(Seq(vseq), id="ytkvec"))
            mod = ytk.YTKProduct(CircularRecord(Seq(pseq), id="ytkprod") >> 11)
            probe("ytk product %d %s" % (size, case), mod)
            product = call("ytk entry %d %s" % (size, case), vec.assemble, mod)
            if product is not None:
                probe("ytk entry %d %s next" % (size, case), ytk.YTKEntry(product >> 3))
                for part_cls in (ytk.YTKPart1, ytk.YTKPart234r):
                    call("ytk entry as %s" % part_cls.__name__, part_cls(product).is_valid)
    emit("assemblies", count)


# --- 4. regex ---------------------------------------------------------------------


def check_regex(rng):
    rx = DNARegex("GGTCTCN(NNNN)(NN*N)(NNNN)NGAGACC")
    for k in range(30):
        seq = instantiate(rx.pattern, rng, [])
        n = len(seq)
        rot = (0, 1, n - 1, n - 7, n - 8, n - 11, n - 12, rng.randrange(n))[k % 8]
        rec = CircularRecord(Seq(seq), id="r") >> rot
        for target in (rec, rec.seq, SeqRecord(rec.seq, id="l")):
            for linear in (True, False):
                m = rx.search(target, linear=linear)
                if m is None:
                    emit("regex", k, type(target).__name__, linear, None)
                else:
                    emit("regex", k, type(target).__name__, linear, m.start(), m.end(), [m.span(i) for i in range(4)], [describe(m.group(i)) for i in range(4)])
    call("regex str", rx.search, "ATGC")
    for letter in "ABCDGHKMNRSTVWY":
        emit("letter", letter, DNARegex(letter).regex.pattern)


# --- 5. registries ------------------------------------------------------------------


def check_registries():
    from moclo.registry.cidar import CIDARRegistry
    from moclo.registry.ecoflex import EcoFlexRegistry
    from moclo.registry.ytk import YTKRegistry, PTKRegistry
    from moclo.registry.plant import PlantRegistry

    for factory in (CIDARRegistry, EcoFlexRegistry, YTKRegistry, PTKRegistry, PlantRegistry):
        try:
            reg = factory()
            keys = sorted(reg)
        except Exception as err:
            emit("registry", factory.__name__, type(err).__name__)
            continue
        emit("registry", factory.__name__, len(keys))
        for key in keys:
            item = reg[key]
            ent = item.entity
            with warnings.catch_warnings():
                warnings.simplefilter("ignore")
                try:
                    valid = ent.is_valid()
                    ovh = (str(ent.overhang_start()), str(ent.overhang_end())) if valid else None
                except Exception as err:
                    valid, ovh = type(err).__name__, None
            emit("  item", key, type(ent).__name__, item.resistance, valid, ovh)


# --- 6. identity of the entities, manager used directly ---------------------------------


class Anything(object):
    def __eq__(self, other):
        return True

    def __ne__(self, other):
        return False

    __hash__ = None


def check_identity(rng):
    from moclo.core._assembly import AssemblyManager

    ovhs = OVERHANGS[:3]
    vseq = instantiate(cidar.CIDARCassetteVector.structure(), rng, [ovhs[0], None, ovhs[2]])
    vec = cidar.CIDARCassetteVector(CircularRecord(Seq(vseq), id="v"))
    mods = []
    for i in range(2):
        mseq = instantiate(cidar.CIDAREntry.structure(), rng, [ovhs[i], "ACGTACGT", ovhs[i + 1]])
        mods.append(cidar.CIDAREntry(CircularRecord(Seq(mseq.lower() if i else mseq), id="m%d" % i)))
    twin = cidar.CIDAREntry(mods[0].record)
    a, b = mods
    emit("eq", a == a, a == b, a != a, a != b, a == twin, a != twin, a == Anything(), a != Anything(), Anything() == a, a == 1, a != 1)
    emit("hash", hash(a) == hash(a), hash(a) == id(a) // 16 or True, a in {a}, twin in {a}, len({a, b, twin, a}), [a, b].index(b), twin in [a, b])
    emit("lettermap", sorted(dict(DNARegex._lettermap).items()), DNARegex._transcribe("ACGTNRYKMSWBDHV()*?x"))
    # manager used directly
    for label, arg in (("list", list(mods)), ("tuple", tuple(mods)), ("empty", []), ("reversed", mods[::-1])):
        def run():
            mgr = AssemblyManager(vec, arg, id_="direct", name="direct")
            return mgr.assemble()
        call("manager " + label, run)
    mlist = list(mods)
    mgr = AssemblyManager(vec, mlist)
    emit("manager attrs", mgr.id, mgr.name, mgr.vector is vec, [m.record.id for m in mgr.modules], [e.record.id for e in mgr.elements])
    call("manager twice", lambda: (str(mgr.assemble().seq), str(mgr.assemble().seq)))
    # duplicates / twins
    call("twin", vec.assemble, a, b, twin)
    call("same object twice", vec.assemble, a, b, a)
    with warnings.catch_warnings(record=True) as caught:
        warnings.simplefilter("always")
        o = [x for x in OVERHANGS if x not in ovhs]
        extra = []
        for i in range(3):
            useq = instantiate(cidar.CIDAREntry.structure(), rng, [o[i], "ACGTAC", o[i + 1]])
            extra.append(cidar.CIDAREntry(CircularRecord(Seq(useq), id="unused%d" % i)))
        vec.assemble(extra[2], a, extra[0], b, extra[1])
        emit("unused order", [(w.category.__name__, str(w.message), [m.record.id for m in w.message.remaining]) for w in caught])


def main():
    rng = random.Random(20211105)
    check_classes()
    check_matching(rng)
    check_assemblies(rng)
    check_regex(rng)
    check_registries()
    check_identity(rng)
    text = "\n".join(LINES)
    bad = [l for l in LINES if "/tmp/agents8" in l or re.search(r" at 0x[0-9a-f]", l)]
    assert not bad, bad[:3]
    if os.environ.get("EQUIV_DUMP"):
        with open(os.environ["EQUIV_DUMP"], "w") as f:
            f.write(text)
    print("lines:", len(LINES))
    print("digest:", hashlib.sha256(text.encode("utf-8")).hexdigest())


if __name__ == "__main__":
    main()
