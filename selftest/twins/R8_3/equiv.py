# Differential test for R8_3: FilesystemRegistry and CombinedRegistry.add_registry
import sys
sys.path.insert(0, "/tmp/agentsR/R8")
import tests  # noqa: F401  (splices the kit packages into the moclo namespace)

import hashlib
import io
import itertools
import os
import random
import warnings

warnings.simplefilter("ignore")

import fs
from Bio.Seq import Seq
from Bio.SeqFeature import SeqFeature, FeatureLocation
from Bio.SeqIO import write
from Bio.SeqRecord import SeqRecord

from moclo.core import AbstractPart, AbstractModule, AbstractVector
from moclo.kits import ytk, cidar
from moclo.record import CircularRecord
from moclo.registry import base


def ensure(kit, *archives):
    from tests._utils import build_registries
    root = "/tmp/agentsR/R8/moclo-{0}/moclo/registry".format(kit)
    if not all(os.path.exists(os.path.join(root, a)) for a in archives):
        build_registries(kit)


def outcome(func, *args):
    try:
        return ("ok", func(*args))
    except BaseException as err:  # noqa
        return (
            "err",
            type(err).__name__,
            str(err),
            type(err.__cause__).__name__,
            type(err.__context__).__name__,
            err.__suppress_context__,
        )


def describe(item):
    rec = item.record
    return (
        item.id,
        item.name,
        item.resistance,
        type(item.entity).__name__,
        type(rec).__name__,
        rec.id,
        rec.name,
        rec.description,
        hashlib.md5(str(rec.seq).encode()).hexdigest(),
        len(rec.features),
    )


def genbank(record):
    buff = io.StringIO()
    write([record], buff, "genbank")
    return buff.getvalue()


def synthetic(rng, ident):
    length = rng.randint(30, 200)
    rec = SeqRecord(Seq("".join(rng.choice("ATGC") for _ in range(length))), id=ident, name=ident[:8],
                    description="synthetic " + ident)
    rec.annotations["molecule_type"] = "DNA"
    for _ in range(rng.randint(0, 3)):
        start = rng.randrange(length - 1)
        rec.features.append(SeqFeature(FeatureLocation(start, rng.randint(start + 1, length), 1), type="CDS",
                                       qualifiers={"label": [rng.choice(["KanR", "AmpR", "CmR", "ori"])]}))
    return rec


class Unrelated(object):
    def __repr__(self):
        return "<Unrelated instance>"


def main():
    ensure("ytk", "ytk.tar.gz", "ptk.tar.gz")
    ensure("cidar", "cidar.tar.gz")
    from moclo.registry.ytk import YTKRegistry, PTKRegistry
    from moclo.registry.cidar import CIDARRegistry

    rng = random.Random(8003)
    results = []
    ytk_reg, ptk_reg, cidar_reg = YTKRegistry(), PTKRegistry(), CIDARRegistry()

    # ---- constructor checks -------------------------------------------------
    mem = fs.open_fs("mem://")
    bad_bases = [None, "YTKPart", 3, Unrelated, Unrelated(), (ytk.YTKPart,), type, object,
                 CircularRecord, dict]
    good_bases = [AbstractPart, AbstractModule, AbstractVector, ytk.YTKPart, ytk.YTKPart1, ytk.YTKCassetteVector,
                  ytk.YTKEntryVector, cidar.CIDARPart, cidar.CIDARDevice]
    for b in bad_bases + good_bases:
        results.append(("base", outcome(lambda: type(base.FilesystemRegistry(mem, b)).__name__)))
    results.append(("url", outcome(lambda: base.FilesystemRegistry("nosuchproto://x", ytk.YTKPart))))
    results.append(("url+base", outcome(lambda: base.FilesystemRegistry("nosuchproto://x", None))))

    # ---- a populated filesystem ----------------------------------------------
    keys = sorted(ytk_reg)
    chosen = rng.sample(keys, 40)
    for i, key in enumerate(chosen):
        ext = ["gb", "gbk", "GB", "genbank", "txt"][i % 5]
        mem.writetext("{}.{}".format(key, ext), genbank(ytk_reg[key].entity.record))
    # same key under both extensions, with different content: "gb" must win by default
    mem.writetext("both.gb", genbank(ytk_reg["pYTK002"].entity.record))
    mem.writetext("both.gbk", genbank(ytk_reg["pYTK038"].entity.record))
    mem.writetext("cidar.gb", genbank(cidar_reg["DVK_EF"].entity.record))
    mem.writetext("empty.gb", "")
    mem.writetext("junk.gbk", "not a genbank file\n")
    mem.writetext("two.gb", genbank(ytk_reg["pYTK002"].entity.record) + genbank(ytk_reg["pYTK003"].entity.record))
    mem.writetext("dotted.name.gb", genbank(ytk_reg["pYTK004"].entity.record))
    mem.writetext("noext", genbank(ytk_reg["pYTK005"].entity.record))
    mem.makedir("adir.gb")
    mem.makedir("sub")
    mem.writetext("sub/inner.gb", genbank(ytk_reg["pYTK006"].entity.record))
    for i in range(60):
        mem.writetext("syn{:03d}.{}".format(i, rng.choice(["gb", "gbk"])), genbank(synthetic(rng, "s{}".format(i))))

    ext_choices = [("gb", "gbk"), ("gbk", "gb"), ("gb",), ("gbk",), (), ["GB"], ("genbank", "txt", "gb"), ("*",),
                   ("g?",), (1, 2), "gb", ("gb", "gb")]
    lookups = chosen + ["both", "cidar", "empty", "junk", "two", "dotted.name", "dotted", "noext", "adir", "sub",
                        "sub/inner", "/sub/inner", "missing", "", "both.gb", 12, None, "BOTH", "syn*"]
    lookups += ["syn{:03d}".format(i) for i in range(60)]
    for exts in ext_choices:
        for b in (ytk.YTKPart, ytk.YTKPart8, AbstractVector, ytk.YTKCassetteVector):
            reg = base.FilesystemRegistry(mem, b, extensions=exts) if exts != ("gb", "gbk") or b is not ytk.YTKPart \
                else base.FilesystemRegistry(mem, b)
            tag = (repr(exts), b.__name__)
            results.append((tag, "files", outcome(lambda: reg._files)))
            results.append((tag, "len", outcome(len, reg)))
            results.append((tag, "iter", outcome(lambda: sorted(iter(reg)))))
            results.append((tag, "order", outcome(lambda: list(reg) == list(reg))))

            def partial():
                it = iter(reg)
                head = list(itertools.islice(it, 3))
                it.close()
                return sorted(head) == sorted(head), list(it)

            results.append((tag, "partial", outcome(partial)))
            picks = lookups if b is ytk.YTKPart else rng.sample(lookups, 25)
            for key in picks:
                results.append((tag, repr(key), outcome(lambda: describe(reg[key]))))
                results.append((tag, repr(key), "in", outcome(lambda: key in reg)))
            results.append((tag, "get", outcome(lambda: reg.get("missing", "dflt"))))

    # the returned record must carry the file stem as id, whatever the LOCUS says
    reg = base.FilesystemRegistry(mem, ytk.YTKPart)
    item = reg["both"]
    results.append((item.id, item.record.id, item.entity.record.id, item.record.name))

    # iteration is lazy: files added after iter() but before next() are seen alike
    it = iter(reg)
    mem.writetext("late.gb", genbank(ytk_reg["pYTK007"].entity.record))
    results.append(("late", "late" in list(it), len(reg)))

    # a closed filesystem
    closed = fs.open_fs("mem://")
    creg = base.FilesystemRegistry(closed, ytk.YTKPart)
    closed.close()
    results.append(("closed", outcome(len, creg), outcome(lambda: list(creg)), outcome(lambda: creg["x"])))
    mem.close()

    # ---- CombinedRegistry ------------------------------------------------------
    def item_of(ident, tag):
        return base.Item(id=ident, name=tag, entity=None, resistance=tag)

    sources = []
    for n in range(40):
        ids = [rng.choice("abcdefghij") + str(rng.randint(0, 6)) for _ in range(rng.randint(0, 12))]
        # keys deliberately differ from item ids sometimes: add_registry must index on item.id
        sources.append({(i if rng.random() < 0.7 else i + "_key"): item_of(i, "src{}".format(n)) for i in ids})
    for trial in range(150):
        combined = base.CombinedRegistry()
        picks = [rng.randrange(len(sources)) for _ in range(rng.randint(0, 6))]
        for p in picks:
            if rng.random() < 0.5:
                combined << sources[p]
            else:
                combined.add_registry(sources[p])
        results.append((picks, len(combined), list(combined), [tuple(combined[k]) for k in combined],
                        "a1" in combined, outcome(lambda: combined["zz"])))
    combined = base.CombinedRegistry()
    results.append(("chain", (combined << ytk_reg << ptk_reg << ytk_reg << cidar_reg) is combined))
    results.append((len(combined), list(combined), all(combined[k] is (ytk_reg.get(k) or ptk_reg.get(k) or cidar_reg.get(k))
                                                       for k in combined)))
    other = base.CombinedRegistry()
    other << combined << {"x": item_of("pYTK001", "shadowed")}
    results.append((len(other), other["pYTK001"] is ytk_reg["pYTK001"]))
    for bad in (None, 3, [item_of("a", "b")], {"k": "not an item"}, {"k": None}):
        c = base.CombinedRegistry()
        results.append(("bad", outcome(lambda: c.add_registry(bad)), list(c)))

    if os.environ.get("R8_DUMP"):
        open(os.environ["R8_DUMP"], "w").write("\n".join(map(repr, results)))
    print(len(results), hashlib.sha256(repr(results).encode("utf-8")).hexdigest())


main()
