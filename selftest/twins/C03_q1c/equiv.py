# coding: utf-8
"""Differential test for the assembly code (overhang graph, accessors, errors).

Run as:  cd /tmp/agents6/C03 && /venv/bin/python pairs_out/C03_q1/equiv.py
Prints a digest of every outcome; it must be identical before / after the
refactoring.
"""
import sys

sys.path.insert(0, "/tmp/agents6/C03")
import tests  # noqa: F401,E402

import copy  # noqa: E402
import hashlib  # noqa: E402
import itertools  # noqa: E402
import random  # noqa: E402
import re  # noqa: E402
import warnings  # noqa: E402

from Bio.Restriction import BpiI, BsaI, BsmBI, SapI  # noqa: E402
from Bio.Seq import Seq  # noqa: E402
from Bio.SeqFeature import SeqFeature, FeatureLocation, Reference  # noqa: E402
from Bio.SeqRecord import SeqRecord  # noqa: E402

from moclo import errors  # noqa: E402
from moclo.record import CircularRecord  # noqa: E402
from moclo.core.vectors import AbstractVector  # noqa: E402
from moclo.core.modules import AbstractModule  # noqa: E402
from moclo.core.parts import AbstractPart  # noqa: E402

RC = {"A": "T", "C": "G", "G": "C", "T": "A", "N": "N"}


def rc(s):
    return "".join(RC[c] for c in reversed(s))


def make_classes(cutter):
    vec = type(str("V_" + cutter.__name__), (AbstractVector,), {"cutter": cutter})
    mod = type(str("M_" + cutter.__name__), (AbstractModule,), {"cutter": cutter})
    return vec, mod


CLASSES = {c.__name__: make_classes(c) for c in (BpiI, BsaI, BsmBI, SapI)}

ALPHABET4 = [
    "ATGC", "GCAT",  # reverse complements of each other
    "CGTA", "TACG",  # reverse complements of each other
    "ACGT", "GATC",  # palindromes
    "AGGT", "ACCT",  # reverse complements of each other
    "TTGA", "CCCA", "AATG",
]
ALPHABET3 = ["ATG", "CAT", "GGA", "TCC", "AAC", "CTA", "TGA"]


def split_site(cutter):
    up = cutter.elucidate()
    pre, rest = up.split("^")
    ov, post = rest.split("_")
    return pre, len(ov), post


def fill(pattern, letter):
    return pattern.replace("N", letter)


def module_seq(cutter, start, end, target):
    pre, _, post = split_site(cutter)
    return (
        fill(pre, "T") + start + fill(post, "A") + target
        + fill(rc(post), "A") + end + fill(rc(pre), "T")
    )


def vector_seq(cutter, start, end, placeholder, backbone):
    pre, _, post = split_site(cutter)
    half = len(backbone) // 2
    return (
        backbone[:half] + fill(rc(post), "A") + end + fill(rc(pre), "T")
        + placeholder + fill(pre, "T") + start + fill(post, "A") + backbone[half:]
    )


def recase(rng, s, mode):
    if mode == "upper":
        return s
    if mode == "lower":
        return s.lower()
    return "".join(c.lower() if rng.random() < 0.5 else c for c in s)


def random_body(rng, n):
    # letters chosen so that no BpiI / BsaI / BsmBI / SapI site can appear
    return "".join(rng.choice("AT") for _ in range(n)) + "CCAA"


def decorate(rng, record, k):
    """Add features (some with citations) and references to a record."""
    n = len(record.seq)
    refs = []
    for j in range(rng.randint(0, 2)):
        ref = Reference()
        ref.title = "ref {} of {}".format(j, record.id)
        ref.authors = "author {}".format(k)
        refs.append(ref)
    if refs or rng.random() < 0.3:
        record.annotations["references"] = refs
    for j in range(rng.randint(0, 3)):
        a = rng.randrange(0, n - 1)
        b = rng.randrange(a + 1, n)
        quals = {"label": ["f{}_{}".format(k, j)]}
        if refs and rng.random() < 0.6:
            quals["citation"] = ["[{}]".format(rng.randint(1, len(refs)))]
        record.features.append(
            SeqFeature(FeatureLocation(a, b, strand=rng.choice([1, -1])), type="misc_feature", qualifiers=quals)
        )
    return record


def make_record(rng, seq, rid, kind, rotate, k):
    if rotate:
        r = rng.randrange(1, len(seq))
        seq = seq[r:] + seq[:r]
    if kind == "circular":
        rec = CircularRecord(Seq(seq), id=rid, name=rid)
    elif kind == "seqrecord":
        rec = SeqRecord(Seq(seq), id=rid, name=rid)
    elif kind == "seqrecord-circular":
        rec = SeqRecord(Seq(seq), id=rid, name=rid, annotations={"topology": "circular"})
    else:
        rec = SeqRecord(Seq(seq), id=rid, name=rid, annotations={"topology": "linear"})
    return decorate(rng, rec, k)


def describe_record(rec):
    return (
        type(rec).__name__,
        str(rec.seq),
        rec.id,
        rec.name,
        rec.description,
        sorted((k, repr(v)) for k, v in rec.annotations.items() if k != "references"),
        [
            (getattr(r, "title", None), getattr(r, "authors", None))
            for r in rec.annotations.get("references", [])
        ],
        "references" in rec.annotations,
        [
            (
                f.type,
                str(f.location),
                sorted(
                    (k, [getattr(x, "title", x) for x in v] if isinstance(v, list) else repr(v))
                    for k, v in f.qualifiers.items()
                ),
            )
            for f in rec.features
        ],
    )


def describe_exception(exc):
    out = [type(exc).__name__, str(exc), getattr(exc, "details", None)]
    if isinstance(exc, errors.MissingModule):
        out.append((type(exc.start_overhang).__name__, str(exc.start_overhang)))
    if isinstance(exc, errors.DuplicateModules):
        out.append([d.record.id for d in exc.duplicates])
    if isinstance(exc, errors.UnusedModules):
        out.append([d.record.id for d in exc.remaining])
    if isinstance(exc, errors.InvalidSequence):
        out.append(getattr(exc.sequence, "id", str(exc.sequence)))
        out.append(repr(exc.exc))
    out.append((exc.__cause__ is None, exc.__suppress_context__))
    return out


def attempt(func, *args, **kwargs):
    with warnings.catch_warnings(record=True) as caught:
        warnings.simplefilter("always")
        try:
            res = func(*args, **kwargs)
        except Exception as exc:  # noqa
            out = ("raised", describe_exception(exc))
        else:
            if isinstance(res, SeqRecord):
                out = ("record", describe_record(res))
            elif isinstance(res, Seq):
                out = ("seq", type(res).__name__, str(res))
            else:
                out = ("value", repr(res))
    warned = [
        (w.category.__name__, describe_exception(w.message) if isinstance(w.message, errors.MocloError) else str(w.message))
        for w in caught
    ]
    return out, warned


def one_case(rng, k, log):
    cname = rng.choice(["BpiI", "BpiI", "BsaI", "BsmBI", "SapI"])
    Vec, Mod = CLASSES[cname]
    cutter = Vec.cutter
    alphabet = ALPHABET3 if cname == "SapI" else ALPHABET4
    pool = rng.sample(alphabet, rng.randint(2, min(6, len(alphabet))))

    shape = rng.random()
    nmod = rng.randint(1, 5)
    if shape < 0.75:
        # a proper chain (possibly with extras / a missing link)
        if rng.random() < 0.7:
            # mostly unambiguous: no overhang together with its reverse complement
            safe = [o for o in alphabet if rc(o) != o and (rc(o) not in alphabet or o < rc(o))]
            chain = rng.sample(safe, min(len(safe), nmod + 1))
        else:
            chain = [rng.choice(pool)]
            for _ in range(nmod):
                chain.append(rng.choice(alphabet))
        pairs = list(zip(chain[:-1], chain[1:]))
        v_end, v_start = chain[0], chain[-1]
        if rng.random() < 0.3 and len(pairs) > 1:
            pairs.pop(rng.randrange(len(pairs)))
        if rng.random() < 0.35:
            pairs.append((rng.choice(alphabet), rng.choice(alphabet)))
    else:
        pairs = [(rng.choice(pool), rng.choice(pool)) for _ in range(nmod)]
        v_end, v_start = rng.choice(pool), rng.choice(pool)
    rng.shuffle(pairs)

    case_mode = rng.choice(["upper", "upper", "lower", "mixed"])
    vkind = rng.choice(["circular"] * 28 + ["seqrecord", "seqrecord-circular"])
    vseq = vector_seq(cutter, v_start, v_end, random_body(rng, rng.randint(2, 9)), random_body(rng, rng.randint(6, 20)))
    vrec = make_record(rng, recase(rng, vseq, case_mode), "vec{}".format(k), vkind, rng.random() < 0.7, k)
    vector = Vec(vrec)

    modules = []
    for j, (s, e) in enumerate(pairs):
        mkind = rng.choice(["circular"] * 57 + ["seqrecord", "seqrecord-circular", "linear"])
        mseq = module_seq(cutter, s, e, random_body(rng, rng.randint(2, 12)))
        if mkind != "linear":
            mseq += random_body(rng, rng.randint(0, 8))
        mode = rng.choice([case_mode, "upper", "mixed"])
        mrec = make_record(
            rng, recase(rng, mseq, mode), "mod{}_{}".format(k, j), mkind,
            mkind != "linear" and rng.random() < 0.7, k,
        )
        modules.append(Mod(mrec))
    if rng.random() < 0.1:
        modules.append(rng.choice(modules))  # the very same object twice

    log.append(("case", k, cname, v_end, v_start, pairs, case_mode, vkind))
    # accessors
    for obj in [vector] + modules:
        log.append(attempt(obj.is_valid))
        log.append(attempt(obj.overhang_start))
        log.append(attempt(obj.overhang_end))
        log.append(attempt(obj.target_sequence))
    log.append(attempt(vector.placeholder_sequence))

    before = [describe_record(o.record) for o in [vector] + modules]
    kwargs = {}
    if rng.random() < 0.3:
        kwargs = {"id": "asm{}".format(k), "name": "n{}".format(k)}
    result = attempt(vector.assemble, *modules, **kwargs)
    log.append(result)
    after = [describe_record(o.record) for o in [vector] + modules]
    log.append(("state", before == after, after))

    # every permutation gives the same verdict (bounded)
    verdicts = set()
    perms = list(itertools.permutations(modules))
    rng.shuffle(perms)
    for perm in perms[:6]:
        out, warned = attempt(vector.assemble, *perm)
        if out[0] == "record":
            verdicts.add(("record", out[1][1], tuple(sorted(map(repr, warned)))))
        else:
            verdicts.add(("raised", out[1][0]))
    log.append(("permutations", sorted(map(repr, verdicts))))
    return result[0][0] if result[0][0] == "record" else result[0][1][0]


def error_strings(log):
    class R(object):
        def __init__(self, id):
            self.record = self
            self.id = id

    a, b = R("a"), R("b{}")
    for details in (None, "plain", "with {} braces", 12):
        for make in (
            lambda d: errors.InvalidSequence("SEQ", details=d),
            lambda d: errors.InvalidSequence("SEQ", ValueError("x"), d),
            lambda d: errors.IllegalSite("SEQ", details=d),
            lambda d: errors.DuplicateModules(a, b, details=d),
            lambda d: errors.DuplicateModules(details=d),
            lambda d: errors.MissingModule("ATGC", details=d),
            lambda d: errors.MissingModule(Seq("ATGC"), details=d, other=1),
            lambda d: errors.UnusedModules(a, b, details=d),
            lambda d: errors.UnusedModules(details=d),
        ):
            def render(make=make, details=details):
                exc = make(details)
                return (type(exc).__name__, [c.__name__ for c in type(exc).__mro__ if c.__module__ != "moclo.errors" or not c.__name__.startswith("_")], str(exc), exc.args, sorted(k for k in vars(exc) if not k.startswith("__")))
            log.append(attempt(render))


def class_checks(log):
    from Bio.Restriction import EcoRV, BsaI

    for base in (AbstractVector, AbstractModule, AbstractPart):
        log.append(attempt(lambda: base(SeqRecord(Seq("A")))))
        blunt = type(str("Blunt"), (base,), {"cutter": EcoRV})
        log.append(attempt(lambda: blunt(SeqRecord(Seq("A")))))
        late = type(str("Late"), (base,), {})
        log.append(attempt(lambda: late(SeqRecord(Seq("A")))))
        late.cutter = BsaI
        log.append(attempt(lambda: type(late(SeqRecord(Seq("A")))).__name__))
        late.cutter = NotImplemented
        log.append(attempt(lambda: late(SeqRecord(Seq("A")))))
    # illegal sites and structure mismatches
    Vec, Mod = CLASSES["BpiI"]
    bad = Mod(CircularRecord(Seq(module_seq(BpiI, "ATGC", "CGTA", "AAGAAGACAA")), id="bad"))
    for _ in range(2):
        log.append(attempt(bad.is_valid))
        log.append(attempt(bad.overhang_start))
    nomatch = Vec(CircularRecord(Seq("ATATATATAT"), id="nomatch"))
    for _ in range(2):
        log.append(attempt(nomatch.is_valid))
        log.append(attempt(nomatch.overhang_end))
    good = Mod(CircularRecord(Seq(module_seq(BpiI, "ATGC", "CGTA", "AATT")), id="good"))
    log.append(attempt(nomatch.assemble, good))
    vec = Vec(CircularRecord(Seq(vector_seq(BpiI, "CGTA", "ATGC", "AATT", "AATTAATT")), id="vec"))
    log.append(attempt(vec.assemble, bad))
    log.append(attempt(vec.assemble, good, bad))
    log.append(attempt(vec.assemble))


def kit_checks(log):
    from moclo.kits import ytk
    from moclo.registry.ytk import YTKRegistry

    reg = YTKRegistry()
    vec = reg["pYTK095"].entity
    mods = [reg[x].entity for x in ("pYTK002", "pYTK067", "pYTK047", "pYTK072", "pYTK017", "pYTK054")]
    log.append(attempt(lambda: type(vec).__name__))
    for perm in (mods, mods[::-1], mods[:3], mods + [reg["pYTK009"].entity]):
        log.append(attempt(vec.assemble, *perm))
    for obj in [vec] + mods:
        log.append(attempt(obj.overhang_start))
        log.append(attempt(obj.overhang_end))
    log.append(("ytk", [c for c in dir(ytk) if c.startswith("YTK")]))


def main():
    rng = random.Random(20240603)
    log = []
    tally = {}
    for k in range(400):
        verdict = one_case(rng, k, log)
        tally[verdict] = tally.get(verdict, 0) + 1
    error_strings(log)
    class_checks(log)
    try:
        kit_checks(log)
    except Exception as exc:  # registry not available: still deterministic
        log.append(("kit_checks failed", type(exc).__name__, str(exc)))
    text = re.sub(r" at 0x[0-9a-f]+", "", repr(log)).encode("utf-8")
    if len(sys.argv) > 1:
        with open(sys.argv[1], "wb") as dump:
            dump.write(text.replace(b"), (", b"),\n("))
    print("cases:", sorted(tally.items()))
    print("entries:", len(log), "bytes:", len(text))
    print("digest:", hashlib.sha256(text).hexdigest())


if __name__ == "__main__":
    main()
