# coding: utf-8
"""Differential test for the code behind DNARegex.search / SeqMatch.group.

Prints a digest of every observable result (values, exception types and
messages, warnings, state of the inputs afterwards).  The digest must be the
same on the pristine tree and with clean.diff applied.
"""
import sys

sys.path.insert(0, "/tmp/agents6/C16")
import tests  # noqa: F401,E402

import copy  # noqa: E402
import hashlib  # noqa: E402
import random  # noqa: E402
import re  # noqa: E402
import warnings  # noqa: E402

from Bio.Seq import Seq, MutableSeq  # noqa: E402
from Bio.SeqFeature import SeqFeature, FeatureLocation  # noqa: E402
from Bio.SeqRecord import SeqRecord  # noqa: E402
from Bio.Restriction import BsaI, BsmBI, BbsI, SapI  # noqa: E402

from moclo.record import CircularRecord  # noqa: E402
from moclo.regex import DNARegex, SeqMatch  # noqa: E402
from moclo.core import modules, vectors, parts  # noqa: E402
from moclo.core._structured import StructuredRecord  # noqa: E402

RNG = random.Random(1601)
LOG = []


def emit(*items):
    LOG.append(repr(items))


def describe(value):
    """A printable, identity-free description of a result."""
    if isinstance(value, SeqRecord):
        return (
            type(value).__name__,
            str(value.seq),
            value.id,
            value.name,
            value.description,
            sorted(value.annotations.items()),
            [
                (f.type, str(f.location), sorted(f.qualifiers.items()))
                for f in value.features
            ],
            sorted((k, list(v)) for k, v in value.letter_annotations.items()),
            list(value.dbxrefs),
        )
    if isinstance(value, Seq):
        return ("Seq", str(value))
    if isinstance(value, SeqMatch):
        m = value.match
        n = m.re.groups
        return (
            "SeqMatch",
            value.start(),
            value.end(),
            [value.span(i) for i in range(n + 1)],
            [describe(value.group(i)) for i in range(n + 1)],
            m.pos,
            m.endpos,
            len(m.string),
            value.shift,
            value.rec is not None,
        )
    return value


def attempt(label, func, *args, **kwargs):
    with warnings.catch_warnings(record=True) as caught:
        warnings.simplefilter("always")
        try:
            out = ("ok", describe(func(*args, **kwargs)))
        except Exception as err:  # noqa
            out = ("raise", type(err).__name__, str(err))
    emit(label, out, [(w.category.__name__, str(w.message)) for w in caught])
    return out


def dna(n, alphabet="ACGT"):
    return "".join(RNG.choice(alphabet) for _ in range(n))


def mixcase(text):
    return "".join(c.lower() if RNG.random() < 0.4 else c for c in text)


def record_of(text, cls=SeqRecord, topology=None):
    feats = []
    n = len(text)
    if n >= 4:
        for k in range(RNG.randint(0, 3)):
            a = RNG.randrange(0, n - 1)
            b = RNG.randrange(a + 1, n + 1)
            feats.append(
                SeqFeature(
                    FeatureLocation(a, b, strand=RNG.choice([1, -1])),
                    type=RNG.choice(["misc_feature", "CDS", "source"]),
                    qualifiers={"label": ["f{}".format(k)]},
                )
            )
    annotations = {"molecule_type": "DNA", "nested": {"k": [1, 2]}}
    if topology is not None:
        annotations["topology"] = topology
    return cls(
        Seq(text),
        id="rec{}".format(n),
        name="name{}".format(n),
        description="desc",
        dbxrefs=["db:1"],
        features=feats,
        annotations=annotations,
        letter_annotations={"q": list(range(n))},
    )


# --- 1. transcription and construction ---------------------------------------

for letter in "ABCDGHKMNRSTVWYabcdghkmnrstvwyXZ*()?+[]":
    attempt(("transcribe", letter), DNARegex._transcribe, letter)

CONSTRUCT = [
    "AA(NN)", "aan", "GGTCTCN(NNNN)(N*)(NNNN)NGAGACC", "(", "A)", "*A", "N**",
    "", "[AN]", "A{2}", "A|C", "(?P<x>RY)", "(?i)AN", "N*+A", "A$", "^A", r"A\b",
    ["A", "N"], ("R", "Y"), b"AN", None, 12,
]
for pattern in CONSTRUCT:
    def build(pattern=pattern):
        rx = DNARegex(pattern)
        return (rx.pattern, rx.regex.pattern, rx.regex.flags, rx.regex.groups)
    attempt(("construct", repr(pattern)), build)
    attempt(("construct-again", repr(pattern)), build)


class Purines(DNARegex):
    _lettermap = dict(DNARegex._lettermap, N="[AG]")


attempt("subclass-map", lambda: (Purines("ANA").regex.pattern, DNARegex("ANA").regex.pattern))
attempt("subclass-search", lambda: Purines("ANA").search(Seq("ACAAGA")))
attempt("base-search", lambda: DNARegex("ANA").search(Seq("ACAAGA")))

# --- 2. search: every kind of target, range, case, pattern ---------------------

PATTERNS = [
    "AA(NN)", "A", "N", "(N*)", "(N*?)A", "A(N*)T", "A(N*?)T", "AC(N+)GT", "(R)(Y)",
    "(S+)(W+)", "(A)?C(G)", "(A)?(C)?G", "AANNN(N*)TT", "AAN(N*?)TT", "G(NN*N)C",
    "K(M*)K", "(B)(D)(H)(V)", "GGTCTCN(NNNN)(N*)(NNNN)NGAGACC", "CG(N*)CG(N*)",
    "aa(nn)", "Aa(N*)tT", "((A)(N))*T", "(AN*)(N*T)", "T(N*)", "(N*)T",
    # patterns outside the plain letters/groups/repeats family
    "A$", "A(N*)$", "^A(N)", r"A\b", r"\bA", "A(?=C)", "A(?!C)(N*)", "(?<=A)C", "[AC]G",
    "[AN]", "A{2}(N{1,3})", "A|CG", "(?P<x>R)(?P=x)", r"(R)\1", "(?:AN)*T", "N*+A",
    "(?i)AN", "A.C", "(N*)(?=GG)",
]
TEXTS = ["", "A", "AA", "ACGT", "AACAA", "AAGTTAAC", "ATGCAGCATA", "ATGCAAGCAATA", "NNANN"]
TEXTS += [dna(RNG.randint(2, 14)) for _ in range(14)]
TEXTS += [dna(RNG.randint(5, 12), "ACGTN") for _ in range(4)]
TEXTS += ["GGTCTCAAACGTTTTTTTCCAAAGAGACC", "TTCCAAAGAGACCAAAAGGTCTCAAACGTTTT"]

RANGES = [
    {}, {"pos": 1}, {"pos": 3}, {"endpos": 3}, {"pos": 2, "endpos": 5}, {"pos": 5, "endpos": 2},
    {"pos": -1}, {"pos": -3, "endpos": 4}, {"endpos": -1}, {"endpos": 0}, {"pos": 100},
    {"pos": 0, "endpos": 100}, {"pos": 4, "endpos": 4},
]

count = 0
for pattern in PATTERNS:
    try:
        with warnings.catch_warnings():
            warnings.simplefilter("ignore")
            rx = DNARegex(pattern)
    except Exception as err:  # noqa
        emit("uncompilable", pattern, type(err).__name__, str(err))
        continue
    for text in TEXTS:
        text = mixcase(text) if RNG.random() < 0.5 else text
        kind = RNG.randrange(4)
        if kind == 0:
            target, extra = Seq(text), {}
        elif kind == 1:
            target, extra = Seq(text), {"linear": False}
        elif kind == 2:
            target = record_of(text, SeqRecord, RNG.choice([None, "linear", "circular"]))
            extra = {"linear": RNG.choice([True, False])}
        else:
            target = record_of(text, CircularRecord, RNG.choice([None, "circular"]))
            extra = RNG.choice([{}, {"linear": True}, {"linear": False}])
        ranges = [{}] + RNG.sample(RANGES, 3)
        for rng in ranges:
            kwargs = dict(rng, **extra)
            before = describe(target)
            attempt(("search", pattern, text, type(target).__name__, sorted(kwargs.items())),
                    rx.search, target, **kwargs)
            emit("untouched", describe(target) == before)
            count += 1

# exhaustive: short circular / linear targets, patterns whose match may need
# more than one turn
for pattern in ["AANNN(N*)TT", "AC(N*)GT", "A(N+)A", "(R+)Y(R+)"]:
    rx = DNARegex(pattern)
    for _ in range(120):
        text = dna(RNG.randint(3, 9), "ACGT")
        for linear in (True, False):
            attempt(("turns", pattern, text, linear), rx.search, Seq(text), linear=linear)
        attempt(("turns-plasmid", pattern, text), rx.search, CircularRecord(Seq(text), id="p"))
        count += 3

# positional and odd arguments
rx = DNARegex("A(N)")
for args in [(1,), (1, 3), (0, 10, False), (2, 9, True)]:
    attempt(("positional", args), rx.search, Seq("CAGTACA"), *args)
for bad in ["ACGT", b"ACGT", None, 12, MutableSeq("ACGT"), ["A"], SeqFeature()]:
    attempt(("bad-target", type(bad).__name__), rx.search, bad)
    attempt(("bad-target-circ", type(bad).__name__), rx.search, bad, linear=False)
for kwargs in [{"pos": None}, {"pos": 1.5}, {"endpos": None}, {"endpos": "3"}, {"pos": True}]:
    attempt(("bad-range", sorted((k, repr(v)) for k, v in kwargs.items())),
            rx.search, Seq("CAGTACA"), **kwargs)
attempt("undefined-seq", rx.search, Seq(None, length=5))
attempt("undefined-seq-empty-range", rx.search, Seq(None, length=5), pos=9)

# --- 3. SeqMatch built by hand: group() for any span -------------------------

plain = re.compile("(?i)(A*)(C*)(X)?")
for rec in [Seq("AACCA"), record_of("AACCA"), record_of("AACCA", CircularRecord), Seq("")]:
    for hay in ["AACCAAACCA", "TTTTTTAAACC", "AACC", "CCCCCCCCCCCCCAAC", ""]:
        for start in range(0, len(hay) + 1, 3):
            m = plain.match(hay, start)
            sm = SeqMatch(m, rec, shift=start)
            for idx in range(4):
                attempt(("handmade", type(rec).__name__, len(rec), hay, start, idx), sm.group, idx)
            attempt(("handmade-span", hay, start), lambda: (sm.start(), sm.end(), sm.span(), sm.span(2)))
            attempt(("handmade-bad-index", hay, start), sm.group, 7)

# --- 4. CircularRecord: membership and slicing ----------------------------------

for _ in range(150):
    text = dna(RNG.randint(1, 9))
    cr = CircularRecord(Seq(text), id="c")
    needle = dna(RNG.randint(0, len(text) + 2)) if RNG.random() < 0.5 else (text * 2)[
        RNG.randrange(len(text)):][: RNG.randint(0, len(text) + 1)]
    attempt(("contains", text, needle), cr.__contains__, needle)
for needle in [Seq("AC"), b"AC", None, ["A"], 3, "", "ac"]:
    attempt(("contains-odd", repr(needle)), CircularRecord(Seq("ACGTAC"), id="c").__contains__, needle)
attempt("contains-empty-record", CircularRecord(Seq(""), id="c").__contains__, "")
attempt("contains-empty-record-A", CircularRecord(Seq(""), id="c").__contains__, "A")

cr = record_of("ATGCAGCATAGG", CircularRecord, "circular")
for index in [0, -1, 5, slice(2, 7), slice(None, 4), slice(8, None), slice(None), slice(9, 3),
              slice(0, 12, 2), 50, "x"]:
    before = describe(cr)
    attempt(("getitem", repr(index)), cr.__getitem__, index)
    emit("getitem-untouched", describe(cr) == before)
piece = cr[2:9]
piece.annotations.get("nested", {"k": []})["k"].append(3)
piece.dbxrefs.append("db:2")
piece.features and piece.features[0].qualifiers.setdefault("note", []).append("x")
emit("slice-is-independent", describe(cr))

# --- 5. structured records on top of the search ---------------------------------


class ModA(modules.AbstractModule):
    cutter = BsaI


class ModB(ModA):
    cutter = BsmBI


class ModC(ModA):
    pass


class VecA(vectors.AbstractVector):
    cutter = BsaI


class PartA(parts.AbstractPart, ModA):
    cutter = BsaI
    signature = ("AACG", "CCAA")


class Bare(StructuredRecord):
    @classmethod
    def structure(cls):
        return "AA(NN)"


for klass in [ModA, ModB, ModC, VecA, PartA, Bare, ModA, ModB]:
    attempt(("regex-of", klass.__name__),
            lambda k=klass: (k._get_regex().pattern, k._get_regex().regex.pattern,
                             k._get_regex() is k._get_regex()))
attempt("regex-not-shared", lambda: (ModA._get_regex() is ModC._get_regex(),
                                     ModA._get_regex() is ModB._get_regex()))
attempt("abstract-regex", StructuredRecord._get_regex)
attempt("unsigned-part", parts.AbstractPart._get_regex)

BODIES = [
    "GGTCTCAAACGTTTTTTTCCAAAGAGACC" + "ATATAT",
    "TTTCCAAAGAGACCATATATGGTCTCAAACGTT",
    "CGTCTCAAACGTTTTTTTCCAAAGAGACG" + "ATATAT",
    "GGTCTCAAACGTTTTTTTCCAAAGAGACC" + "ATGGTCTCAT",
    "GAGACCAAACGTTTTTTTCCAAAGGTCTC" + "ATATAT",
    "TTCCAAAGGTCTCATATATGAGACCAAACGTTT",
    "ATATATATAT",
]
for body in BODIES:
    for cls, topology in [(CircularRecord, None), (CircularRecord, "circular"), (SeqRecord, None),
                          (SeqRecord, "linear"), (SeqRecord, "Circular"), (SeqRecord, "LINEAR")]:
        for klass in [ModA, ModB, VecA, PartA, Bare]:
            rec = record_of(mixcase(body), cls, topology)
            before = describe(rec)
            entity = klass(rec)
            attempt(("valid", klass.__name__, body, cls.__name__, topology), entity.is_valid)
            for method in ["overhang_start", "overhang_end", "target_sequence", "placeholder_sequence"]:
                if hasattr(entity, method):
                    attempt((method, klass.__name__, body, cls.__name__, topology),
                            getattr(entity, method))
                    attempt((method + "-again", klass.__name__, body), getattr(entity, method))
            emit("record-untouched", describe(rec) == before)

from moclo.kits import ytk  # noqa: E402
from moclo.registry.ytk import YTKRegistry  # noqa: E402

registry = YTKRegistry()
for key in sorted(registry)[:40]:
    item = registry[key]
    entity = item.entity
    attempt(("ytk", key, type(entity).__name__), entity.is_valid)
    attempt(("ytk-target", key), entity.target_sequence)
    attempt(("ytk-as-cassette", key), lambda: ytk.YTKCassette(item.entity.record).is_valid())

vector = ytk.YTKCassetteVector(registry["pYTK095"].entity.record)
mods = [registry[k].entity for k in ["pYTK002", "pYTK009", "pYTK033", "pYTK051", "pYTK067", "pYTK072"]]
attempt("ytk-assembly", vector.assemble, *mods)
attempt("ytk-assembly-missing", vector.assemble, *mods[:-1])
attempt("ytk-assembly-duplicate", vector.assemble, *(mods + [registry["pYTK003"].entity]))

# --- 6. targets and structured classes reached through inheritance -----------------


class MySeq(Seq):
    pass


class MyRecord(SeqRecord):
    pass


class MyPlasmid(CircularRecord):
    pass


class Lookalike(object):
    seq = Seq("ATGCAGCATA")

    def __len__(self):
        return 10

    def __str__(self):
        return "ATGCAGCATA"


rx = DNARegex("AA(NN)")
for make in [lambda: MySeq("ATGCAGCATA"), lambda: MyRecord(Seq("ATGCAGCATA"), id="m"),
             lambda: MyPlasmid(Seq("ATGCAGCATA"), id="m"), Lookalike]:
    for kwargs in [{}, {"linear": True}, {"linear": False}, {"linear": 0}, {"linear": "yes"}, {"linear": None}]:
        attempt(("derived-target", make().__class__.__name__, sorted((k, repr(v)) for k, v in kwargs.items())),
                rx.search, make(), **kwargs)


class Preset(Bare):
    _regex = DNARegex("TT(NN)")


class PresetChild(Preset):
    pass


class Late(Bare):
    pass


Dynamic = type(str("Dynamic"), (ModA,), {"cutter": SapI})


class Mixed(PartA, ModC):
    pass


wrapping = record_of("ATTCAGCATA", CircularRecord)
attempt("parent-first", lambda: Bare(wrapping)._match.span(1))
for klass in [Preset, PresetChild, Late, Dynamic, Mixed, Bare]:
    attempt(("inherited-regex", klass.__name__),
            lambda k=klass: (k._get_regex().pattern, k._get_regex() is k._get_regex(),
                             [k._get_regex() is b._get_regex() for b in k.__mro__[1:]
                              if hasattr(b, "_get_regex") and b not in (StructuredRecord,
                                                                        modules.AbstractModule,
                                                                        parts.AbstractPart)]))
    attempt(("inherited-valid", klass.__name__), lambda k=klass: k(wrapping).is_valid())

digest = hashlib.sha256("\n".join(LOG).encode("utf-8")).hexdigest()
print("searches: {}  entries: {}".format(count, len(LOG)))
print("digest:", digest)
