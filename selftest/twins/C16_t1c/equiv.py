# coding: utf-8
"""Differential test for the DNA pattern search code and its users.

Run as: cd /tmp/agents9/C16 && /venv/bin/python pairs_out/C16_t1/equiv.py
Prints a digest that has to be identical on the pristine tree and on the
refactored one. Set EQUIV_DUMP=<file> to get the individual lines.
"""
import hashlib
import inspect
import os
import random
import re
import sys
import warnings

sys.path.insert(0, "/tmp/agents9/C16")
import tests  # noqa: F401,E402

from Bio.Seq import Seq  # noqa: E402
from Bio.SeqFeature import SeqFeature, FeatureLocation  # noqa: E402
from Bio.SeqRecord import SeqRecord  # noqa: E402

from moclo import errors  # noqa: E402
from moclo.core import _structured  # noqa: E402
from moclo.record import CircularRecord  # noqa: E402
from moclo.regex import DNARegex, SeqMatch  # noqa: E402
import moclo.regex  # noqa: E402

LINES = []
ADDRESS = re.compile(r" at 0x[0-9a-fA-F]+")


def out(*fields):
    LINES.append(" | ".join(str(f) for f in fields))


def plain(value):
    """A representation free of addresses, good for tuples and sequences."""
    if isinstance(value, tuple):
        return "tuple" + repr(tuple(plain(v) for v in value))
    if isinstance(value, Seq):
        return "{}({!r})".format(type(value).__name__, str(value))
    if isinstance(value, SeqRecord):
        return "{}(seq={!r}, id={!r}, name={!r}, desc={!r}, ann={!r}, feats={!r}, letter={!r}, dbx={!r})".format(
            type(value).__name__,
            str(value.seq),
            value.id,
            value.name,
            value.description,
            sorted(value.annotations.items()),
            [(f.type, str(f.location), sorted((k, str(v)) for k, v in f.qualifiers.items())) for f in value.features],
            sorted((k, str(v)) for k, v in value.letter_annotations.items()),
            value.dbxrefs,
        )
    if isinstance(value, BaseException):
        args = tuple(plain(a) for a in value.args)
        return ADDRESS.sub("", "{}: {} args={!r}".format(type(value).__name__, value, args))
    return ADDRESS.sub("", repr(value))


def attempt(label, func):
    with warnings.catch_warnings(record=True) as caught:
        warnings.simplefilter("always")
        try:
            result = func()
        except Exception as exc:  # noqa
            result = exc
            cause = exc.__cause__
            out(label, "RAISED", plain(exc), "cause=" + (plain(cause) if cause else "None"), "suppress=%r" % exc.__suppress_context__)
        else:
            out(label, "OK", plain(result))
    for w in caught:
        out(label, "WARNING", w.category.__name__, str(w.message))
    return result


def describe_match(m, ngroups, named=()):
    if m is None:
        return "None"
    parts = ["start=%r end=%r" % (m.start(), m.end())]
    parts.append("same_rec=%r shift=%r" % (m.rec is m.rec, m.shift))
    parts.append("re=%r" % (tuple(m.match.span()),))
    for g in list(range(ngroups + 1)) + list(named):
        sp = m.span(g)
        parts.append("span%r=%r eq=%r" % (g, tuple(sp), sp == tuple(sp)))
        parts.append("group%r=%s" % (g, plain(m.group(g))))
    parts.append("span()=%r group()=%s" % (tuple(m.span()), plain(m.group())))
    return " ".join(parts)


# --- 1. the table, the transcription, the compiled expressions -----------------

out("lettermap", sorted(DNARegex._lettermap.items()))
out("names", sorted(n for n in ("DNARegex", "SeqMatch", "CircularRecord", "re", "six", "typing", "Bio", "_S") if hasattr(moclo.regex, n)))
out("sig.search", [(p.name, p.kind.name, p.default == inspect.Parameter.empty or p.default) for p in inspect.signature(DNARegex.search).parameters.values()])
out("sig.SeqMatch", [(p.name, p.kind.name, p.default == inspect.Parameter.empty or p.default) for p in inspect.signature(SeqMatch.__init__).parameters.values()])
out("sig.group", [(p.name, p.kind.name, p.default == inspect.Parameter.empty or p.default) for p in inspect.signature(SeqMatch.group).parameters.values()])
out("sig.span", [(p.name, p.kind.name, p.default == inspect.Parameter.empty or p.default) for p in inspect.signature(SeqMatch.span).parameters.values()])

PATTERNS = [
    "AA(NN)", "(NN)AA", "A(N*)T", "A(N*?)T", "(N*)", "(N*?)(A)", "GGTCTCN(NNNN)(N*)(NNNN)NGAGACC",
    "GA(NN)(N*?)(NN)TC", "(A)(C)?(G)", "(?P<up>RY)(?P<mid>N*)(?P<down>SW)", "B(D)H", "K(M)", "V(W)Y",
    "(R)(S)(N)", "aa(nn)", "Aa(Nn)", "(N+)", "(N{3})(N{2})", "T(N*)T(N*)T", "(ACGT)", "X(N)", "(U)", ".(N).",
    "(N)\\1", "(?=A)(NN)", "", "N", "(AC|GT)(N*)",
]
BAD_PATTERNS = ["(", "A)", "(?P<x>A)(?P<x>C)", "[", "N{2,1}", None, 12, b"AA", ["A", "N"]]

for p in PATTERNS:
    attempt("transcribe %r" % (p,), lambda: DNARegex._transcribe(p))
    dr = DNARegex(p)
    out("compiled %r" % (p,), dr.pattern, dr.regex.pattern, int(dr.regex.flags), dr.regex.groups, sorted(dr.regex.groupindex.items()))
for p in BAD_PATTERNS:
    attempt("bad pattern %r" % (p,), lambda: DNARegex(p).regex.pattern)


class Lax(DNARegex):
    _lettermap = dict(DNARegex._lettermap, X="[ACGT]", N="[ACGT]")


attempt("subclass table", lambda: (Lax._transcribe("XN(B)"), describe_match(Lax("X(N)").search(Seq("NNACN")), 1)))

# --- 2. every code against every letter, in both cases -------------------------

for code in "ABCDGHKMNRSTVWYUXacgtnrykm":
    dr = DNARegex("(" + code + ")")
    row = []
    for letter in "ACGTNUXacgtnux":
        for mk in (Seq, lambda s: SeqRecord(Seq(s), id="r"), lambda s: CircularRecord(Seq(s), id="c")):
            m = dr.search(mk(letter))
            row.append(None if m is None else (tuple(m.span(1)), str(getattr(m.group(1), "seq", m.group(1)))))
    out("code %s" % code, row)

# --- 3. generated searches ------------------------------------------------------

rng = random.Random(160016)


def make_text(n):
    s = "".join(rng.choice("ACGT") for _ in range(n))
    mode = rng.randrange(4)
    if mode == 0:
        return s.lower()
    if mode == 1:
        return "".join(c.lower() if rng.random() < 0.5 else c for c in s)
    return s


def make_targets(text):
    feats = [SeqFeature(FeatureLocation(0, min(2, len(text))), type="misc_feature", qualifiers={"label": ["x"]})] if text else []
    yield "Seq", lambda: Seq(text)
    yield "SeqRecord", lambda: SeqRecord(Seq(text), id="rec", name="recname", description="d", features=list(feats), annotations={"topology": "linear", "molecule_type": "DNA"})
    yield "CircularRecord", lambda: CircularRecord(Seq(text), id="circ", name="circname", description="d", features=list(feats), annotations={"topology": "circular"})


SEARCH_PATTERNS = [p for p in PATTERNS if p not in ("",)] + [""]
compiled = {p: DNARegex(p) for p in SEARCH_PATTERNS}
count = 0
for round_ in range(140):
    n = rng.choice([0, 1, 2, 3, 4, 5, 6, 8, 10, 12, 14, 17])
    text = make_text(n)
    # plant something that is likely to match, possibly across the origin
    if n >= 6 and rng.random() < 0.8:
        motif = rng.choice(["AAGC", "GATTACATC", "ACGGT", "TGGT", "GGTCTCAACGTTTGGCCAGAGACC", "TCGT", "ACG"])
        motif = motif[: n]
        at = rng.randrange(n)
        chars = list(text)
        for k, c in enumerate(motif):
            chars[(at + k) % n] = c if rng.random() < 0.7 else c.lower()
        text = "".join(chars)
    for p in rng.sample(SEARCH_PATTERNS, 7):
        dr = compiled[p]
        ngroups = dr.regex.groups
        named = sorted(dr.regex.groupindex)
        for kind, mk in make_targets(text):
            for linear in (True, False):
                variants = [((), {})]
                variants.append(((rng.randrange(-3, n + 3),), {}))
                variants.append(((rng.randrange(0, n + 1), rng.randrange(-2, n + 4)), {}))
                variants.append(((), {"pos": rng.randrange(0, n + 1)}))
                variants.append(((), {"endpos": rng.randrange(0, n + 2)}))
                variants.append(((0, 0), {}))
                variants.append(((), {"endpos": 0}))
                for args, kwargs in rng.sample(variants, 3):
                    target = mk()
                    before = plain(target)
                    label = "search %r %s %r linear=%r %r %r" % (p, kind, text, linear, args, kwargs)
                    mode = rng.randrange(3)
                    if mode == 0:
                        call = lambda: dr.search(target, *args, linear=linear, **kwargs)  # noqa: E731
                    elif mode == 1 and not args:
                        call = lambda: dr.search(string=target, linear=linear, **kwargs)  # noqa: E731
                    elif len(args) == 2:
                        call = lambda: dr.search(target, args[0], args[1], linear)  # noqa: E731
                    else:
                        call = lambda: dr.search(target, *args, linear=linear, **kwargs)  # noqa: E731
                    with warnings.catch_warnings(record=True) as caught:
                        warnings.simplefilter("always")
                        try:
                            m = call()
                            res = describe_match(m, ngroups, named)
                            if m is not None:
                                res += " rec_is_target=%r type=%s" % (m.rec is target, type(m).__name__)
                        except Exception as exc:  # noqa
                            res = "RAISED " + plain(exc)
                    out(label, res, "untouched=%r" % (plain(target) == before), [str(w.message) for w in caught])
                    count += 1
out("generated searches", count)

# default `linear`, positional everything
for text in ["ATGCAGCATA", "atgcagcata", "AtGcAgCaTa", "GCTTTTTTAA", "NNAANN", "AA", "A", ""]:
    for kind, mk in make_targets(text):
        target = mk()
        attempt("default linear %s %r" % (kind, text), lambda: describe_match(DNARegex("AA(NN)").search(target), 1))
        attempt("default linear lazy %s %r" % (kind, text), lambda: describe_match(DNARegex("(A)(N*?)(T)").search(target), 3))
        attempt("full turn %s %r" % (kind, text), lambda: describe_match(DNARegex("(N*)").search(target, 1, linear=False), 1))
        attempt("truthy linear %s %r" % (kind, text), lambda: [describe_match(DNARegex("A(NN)").search(target, linear=v), 1) for v in (1, 0, None, "no", "", [], [0])])

# --- 4. things that fail ----------------------------------------------------------

dr = DNARegex("AA(NN)")
for bad in ["ATGC", b"ATGC", None, 12, ["A"], ("A", "A"), bytearray(b"AA"), object, SeqRecord, Seq]:
    attempt("bad target %s" % type(bad).__name__, lambda: dr.search(bad))
    attempt("bad target kw %s" % type(bad).__name__, lambda: dr.search(string=bad, linear=False))
good = Seq("ATGCAAGCAATA")
for args, kwargs in [((None,), {}), ((0, None), {}), (("1",), {}), ((0, "x"), {}), ((1.5,), {}), ((0, 2.5), {}),
                     ((), {"foo": 1}), ((0, 1, True, 3), {}), ((), {"string": good}), ((0,), {"pos": 1}), ((), {"target": good})]:
    attempt("bad call %r %r" % (args, sorted(kwargs)), lambda: describe_match(dr.search(good, *args, **kwargs), 1))
attempt("no target", lambda: dr.search())
m = dr.search(good)
for idx in [2, 99, -1, "x", None, 1.0, (1,), True]:
    attempt("bad group %r" % (idx,), lambda: plain(m.group(idx)))
    attempt("bad span %r" % (idx,), lambda: plain(tuple(m.span(idx))))
attempt("kw index", lambda: (plain(m.group(index=1)), plain(tuple(m.span(index=1)))))
attempt("bad kw", lambda: m.group(group=1))
attempt("SeqRecord no seq", lambda: describe_match(dr.search(SeqRecord(None)), 1))
attempt("Seq undefined", lambda: describe_match(dr.search(Seq(None, length=6)), 1))

# --- 5. SeqMatch built by hand, spans of any kind --------------------------------

hand = re.compile("(?i)(A*)(C*)(G*)(T*)(X)?")
count = 0
for rec_text in ["", "A", "AC", "ACGT", "AACCGGTT", "acgtacgt"]:
    for long_text in ["AACCGGTT", "AAAACCCCGGGGTTTT", "ACGT" * 8, "", "TTTT"]:
        for at in range(0, len(long_text) + 1, 3):
            raw = hand.match(long_text, at)
            for kind, mk in make_targets(rec_text):
                rec = mk()
                for extra in [(), (3,)]:
                    sm = SeqMatch(raw, rec, *extra)
                    row = [sm.shift, sm.rec is rec, sm.match is raw, sm.start(), sm.end()]
                    for g in range(6):
                        try:
                            row.append((tuple(sm.span(g)), plain(sm.group(g))))
                        except Exception as exc:  # noqa
                            row.append(plain(exc))
                    out("hand %r %r %d %s" % (rec_text, long_text, at, kind), row)
                    count += 1
sm = SeqMatch(match=hand.match("AACC"), rec=Seq("AAC"), shift=2)
out("hand kw", sm.shift, plain(sm.rec), plain(sm.group(2)))
sm.rec = Seq("AACCAACC")
sm.match = hand.match("AACCAACC", 4)
sm.shift = 7
out("hand reassigned", sm.shift, plain(sm.rec), plain(sm.group(0)), tuple(sm.span(2)))
attempt("hand bad", lambda: SeqMatch())
attempt("hand bad kw", lambda: SeqMatch(hand.match("A"), target=Seq("A")))
out("hand total", count)

# --- 6. structured records: every kit class, every registry ----------------------

import moclo.kits.cidar  # noqa: E402
import moclo.kits.ecoflex  # noqa: E402
import moclo.kits.moclo  # noqa: E402
import moclo.kits.plant  # noqa: E402
import moclo.kits.ytk  # noqa: E402
import moclo.registry.cidar  # noqa: E402
import moclo.registry.ecoflex  # noqa: E402
import moclo.registry.plant  # noqa: E402
import moclo.registry.ytk  # noqa: E402
from moclo.core import modules, parts, vectors  # noqa: E402

kit_classes = []
for mod in (moclo.kits.cidar, moclo.kits.ecoflex, moclo.kits.moclo, moclo.kits.plant, moclo.kits.ytk, modules, vectors, parts):
    for name, obj in sorted(vars(mod).items()):
        if inspect.isclass(obj) and issubclass(obj, _structured.StructuredRecord) and obj.__module__ == mod.__name__:
            kit_classes.append(obj)
for cls in kit_classes:
    attempt("structure %s.%s" % (cls.__module__, cls.__name__), cls.structure)
    attempt("regex %s.%s" % (cls.__module__, cls.__name__), lambda: (cls._get_regex().pattern, cls._get_regex().regex.pattern, cls._get_regex() is cls._get_regex()))
    attempt("new %s.%s" % (cls.__module__, cls.__name__), lambda: type(cls(SeqRecord(Seq("ACGT")))).__name__)


def describe_entity(entity):
    row = [type(entity).__name__]
    try:
        row.append(entity.is_valid())
    except Exception as exc:  # noqa
        row.append(plain(exc))
    for name in ("overhang_start", "overhang_end"):
        try:
            row.append(plain(getattr(entity, name)()))
        except Exception as exc:  # noqa
            row.append(plain(exc))
    for name in ("target_sequence", "placeholder_sequence"):
        if hasattr(entity, name):
            try:
                rec = getattr(entity, name)()
                row.append(hashlib.sha1(plain(rec).encode()).hexdigest()[:12] + ":%d" % len(rec))
            except Exception as exc:  # noqa
                row.append(plain(exc)[:200])
    try:
        m = entity._match
        row.append([tuple(m.span(i)) for i in range(4)])
        row.append([str(m.group(i).seq)[:12] + ".." + str(m.group(i).seq)[-12:] for i in range(4)])
    except Exception as exc:  # noqa
        row.append(plain(exc)[:200])
    return row


registries = [
    moclo.registry.ytk.YTKRegistry(), moclo.registry.ytk.PTKRegistry(), moclo.registry.cidar.CIDARRegistry(),
    moclo.registry.ecoflex.EcoFlexRegistry(), moclo.registry.plant.PlantRegistry(),
]
total = 0
for registry in registries:
    rname = type(registry).__name__
    keys = sorted(registry)
    out("registry", rname, len(registry), len(keys))
    for j, key in enumerate(keys):
        item = registry[key]
        entity = item.entity
        before = plain(entity.record)
        out("item", rname, key, item.name, item.resistance, describe_entity(entity), "untouched=%r" % (plain(entity.record) == before))
        total += 1
        if j % 6 == 0 and entity.is_valid():
            # the same plasmid with the origin moved into and around the match
            m = entity._match
            n = len(entity.record)
            spots = sorted({m.span(0)[0] + 1, m.span(1)[0], m.span(1)[0] + 2, m.span(1)[1], m.span(2)[0] + 3, m.span(3)[0], m.span(3)[0] + 1, m.span(3)[1], m.span(0)[1] - 1, m.span(0)[1]})
            for spot in spots:
                rotated = entity.record << (spot % n)
                out("rotated", rname, key, spot % n, type(rotated).__name__, describe_entity(type(entity)(rotated)))
                as_plain = SeqRecord(rotated.seq, id=rotated.id, name=rotated.name, annotations=dict(rotated.annotations))
                out("rotated plain", rname, key, spot % n, describe_entity(type(entity)(as_plain)))
                total += 2
            # declared linear, or with an odd topology
            for topology in ("linear", "LINEAR", "Circular", "weird", None):
                ann = {} if topology is None else {"topology": topology}
                rotated = entity.record << ((m.span(1)[0] + 2) % n)
                as_plain = SeqRecord(rotated.seq, id=rotated.id, annotations=ann)
                out("topology", rname, key, topology, describe_entity(type(entity)(as_plain)))
                # a circular record whose annotation was edited afterwards
                edited = CircularRecord(rotated)
                if topology is not None:
                    edited.annotations["topology"] = topology
                out("topology edited", rname, key, topology, describe_entity(type(entity)(edited)))
                total += 2
            # all other classes of the same kit on that record (mostly invalid)
            if j % 18 == 0:
                for cls in kit_classes:
                    if cls.__module__ == type(entity).__module__:
                        try:
                            other = cls(entity.record)
                        except Exception as exc:  # noqa
                            out("cross", rname, key, cls.__name__, plain(exc))
                            continue
                        try:
                            other._match
                            res = "match"
                        except Exception as exc:  # noqa
                            res = "%s: %s args=%d %s details=%r" % (type(exc).__name__, str(exc)[:60], len(exc.args), type(exc.args[0]).__name__ if exc.args else None, getattr(exc, "details", None))
                            res += " seq_is=%r" % (getattr(exc, "sequence", None) is entity.record or getattr(exc, "sequence", None) is other.seq)
                        try:
                            valid = other.is_valid()
                        except Exception as exc:  # noqa
                            valid = plain(exc)
                        out("cross", rname, key, cls.__name__, res, valid)
                        total += 1
out("entities", total)

# non-string topology annotation, missing annotations
for ann in [{"topology": 3}, {"topology": None}, {"topology": b"circular"}]:
    rec = SeqRecord(Seq("GGTCTCAACGTTTGGCCAGAGACC"), id="odd", annotations=ann)
    attempt("odd topology %r" % (ann,), lambda: describe_entity(moclo.kits.ytk.YTKEntry(rec)))

# an assembly per kit style through the public API (wrapping inputs included)
ytk = registries[0]
try:
    vec = ytk["pYTK095"].entity
    mods = [ytk[k].entity for k in ("pYTK002", "pYTK009", "pYTK032", "pYTK051", "pYTK067") if k in ytk]
    for shift in (0, 1, 777):
        ms = [type(x)(x.record << (x._match.span(1)[0] + shift) % len(x.record)) for x in mods]
        attempt("assembly shift %d" % shift, lambda: hashlib.sha1(plain(vec.assemble(*ms)).encode()).hexdigest())
    attempt("assembly failing", lambda: vec.assemble(*mods[:3]))
except KeyError as exc:
    out("assembly skipped", plain(exc))

# --- digest -------------------------------------------------------------------------

blob = "\n".join(LINES).encode("utf-8")
if os.environ.get("EQUIV_DUMP"):
    with open(os.environ["EQUIV_DUMP"], "wb") as handle:
        handle.write(blob)
print("lines:", len(LINES))
print("digest:", hashlib.sha256(blob).hexdigest())
