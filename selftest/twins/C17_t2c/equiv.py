# coding: utf-8
"""Differential test for the code behind property C17.

Exercises validation, overhangs, targets, placeholders, structures, assembly
(successful and failing), citations handling, the exception classes and the
regex / record helpers through the existing API on generated inputs and
prints a digest of everything observed (results, exception types, messages,
``.args``, attributes, warnings, state of the inputs afterwards).

Run as: cd /tmp/agents9/C17 && /venv/bin/python pairs_out/C17_t?/equiv.py
Set EQUIV_DUMP=/some/file to also write every observed line there.
"""
import sys

sys.path.insert(0, "/tmp/agents9/C17")
import tests  # noqa: F401,E402

import copy  # noqa: E402
import hashlib  # noqa: E402
import inspect  # noqa: E402
import os  # noqa: E402
import random  # noqa: E402
import re  # noqa: E402
import warnings  # noqa: E402

import Bio.Restriction as R  # noqa: E402
from Bio.Seq import Seq  # noqa: E402
from Bio.SeqFeature import SeqFeature, FeatureLocation, Reference  # noqa: E402
from Bio.SeqRecord import SeqRecord  # noqa: E402

from moclo import errors  # noqa: E402
from moclo.core import (  # noqa: E402
    AbstractModule,
    AbstractPart,
    AbstractVector,
    Cassette,
    CassetteVector,
    Device,
    DeviceVector,
    Entry,
    EntryVector,
    Product,
)
from moclo.core._assembly import AssemblyManager  # noqa: E402
from moclo.core._structured import StructuredRecord  # noqa: E402
from moclo.kits import cidar, ecoflex, plant, ytk  # noqa: E402
from moclo.kits import moclo as moclokit  # noqa: E402
from moclo.record import CircularRecord  # noqa: E402
from moclo.regex import DNARegex, SeqMatch  # noqa: E402

warnings.simplefilter("ignore")

LINES = []
RNG = random.Random(1717)

IUPAC = {
    "A": "A", "C": "C", "G": "G", "T": "T",
    "B": "CGT", "D": "AGT", "H": "ACT", "K": "GT", "M": "AC", "N": "ACGT",
    "R": "AG", "S": "CG", "V": "ACG", "W": "AT", "Y": "CT",
}


# --- description helpers ------------------------------------------------------


def d_ref(ref):
    if isinstance(ref, Reference):
        return ("Reference", ref.title, ref.authors, ref.journal)
    return ("raw", repr(ref))


def d_feature(f):
    quals = []
    for k in sorted(f.qualifiers):
        v = f.qualifiers[k]
        if k == "citation":
            v = [d_ref(x) if not isinstance(x, str) else x for x in v]
        quals.append((k, repr(v)))
    return (f.type, str(f.location), f.id, tuple(quals))


def d_record(rec):
    if rec is None:
        return None
    ants = []
    for k in sorted(rec.annotations):
        v = rec.annotations[k]
        if k == "references":
            v = [d_ref(x) for x in v]
        ants.append((k, repr(v)))
    return (
        type(rec).__name__,
        str(rec.seq),
        rec.id,
        rec.name,
        rec.description,
        tuple(ants),
        tuple(d_feature(f) for f in rec.features),
        repr(sorted(rec.letter_annotations.items())),
        repr(rec.dbxrefs),
    )


def d_value(v):
    if isinstance(v, SeqRecord):
        return d_record(v)
    if isinstance(v, Seq):
        return ("Seq", str(v))
    if isinstance(v, StructuredRecord):
        return ("entity", type(v).__name__, v.record.id)
    if isinstance(v, SeqMatch):
        return ("SeqMatch", v.span(0), v.shift, d_value(v.group(0)))
    if isinstance(v, BaseException):
        return d_exc(v)
    if isinstance(v, (tuple, list)):
        return (type(v).__name__,) + tuple(d_value(x) for x in v)
    if isinstance(v, dict):
        return ("dict",) + tuple((d_value(k), d_value(x)) for k, x in v.items())
    if isinstance(v, type):
        return ("class", v.__name__)
    return repr(v)


ERR_ATTRS = ("sequence", "exc", "details", "duplicates", "remaining", "start_overhang")


def d_exc(e):
    try:
        text = str(e)
    except Exception as e2:  # str() itself may fail (non-string details)
        text = ("str-failed", type(e2).__name__, str(e2))
    out = [
        "EXC",
        type(e).__name__,
        tuple(c.__name__ for c in type(e).__mro__),
        text,
        tuple(d_value(a) for a in e.args),
        type(e.__cause__).__name__,
        e.__suppress_context__,
    ]
    if isinstance(e, errors.MocloError):
        for a in ERR_ATTRS:
            if hasattr(e, a):
                out.append((a, d_value(getattr(e, a))))
    return tuple(out)


def emit(tag, *values):
    LINES.append(repr((tag,) + tuple(values)))


def observe(tag, func, *args, **kwargs):
    """Call func, record result or exception and the warnings it emitted."""
    with warnings.catch_warnings(record=True) as caught:
        warnings.simplefilter("always")
        try:
            res = ("OK", d_value(func(*args, **kwargs)))
        except Exception as e:
            res = d_exc(e)
    ws = tuple(
        (w.category.__name__, d_exc(w.message) if isinstance(w.message, Exception) else str(w.message),
         os.path.basename(w.filename))
        for w in caught
        if "pkg_resources" not in str(w.message)
    )
    emit(tag, res, ws)
    return res


# --- sequence generators ------------------------------------------------------


def rand_dna(n, alphabet="ACGT"):
    return "".join(RNG.choice(alphabet) for _ in range(n))


def instantiate(structure, filler=12, clean_of=()):
    """Build a concrete sequence following a structure pattern."""
    for _ in range(200):
        s = structure.replace("(", "").replace(")", "")
        s = s.replace("N*?", "n" * filler).replace("N*", "n" * filler)
        out = []
        for ch in s:
            if ch == "n":
                out.append(RNG.choice("ACGT"))
            else:
                out.append(RNG.choice(IUPAC[ch]))
        seq = "".join(out)
        return seq
    raise RuntimeError("cannot instantiate")


def mixed_case(s):
    return "".join(c.lower() if RNG.random() < 0.5 else c for c in s)


def corrupt(s):
    i = RNG.randrange(len(s))
    choices = [c for c in "ACGTN" if c != s[i].upper()]
    return s[:i] + RNG.choice(choices) + s[i + 1:]


def rotate(s, k):
    k %= len(s)
    return s[k:] + s[:k]


def with_features(rec, refs=True):
    n = len(rec.seq)
    r1 = Reference()
    r1.title = "first"
    r1.authors = "A"
    r2 = Reference()
    r2.title = "second"
    r2.authors = "B"
    if refs:
        rec.annotations["references"] = [r1, r2]
    rec.features.append(
        SeqFeature(FeatureLocation(0, n), type="source", qualifiers={"label": ["whole"]})
    )
    rec.features.append(
        SeqFeature(
            FeatureLocation(n // 3, 2 * n // 3, 1),
            type="misc_feature",
            qualifiers={"label": ["mid"], "citation": ["[2]", "[1]"]},
        )
    )
    rec.features.append(
        SeqFeature(
            FeatureLocation(1, max(2, n // 4), -1),
            type="CDS",
            qualifiers={"label": ["KanR"], "citation": ["[1]"]},
        )
    )
    return rec


# --- classes ------------------------------------------------------------------


def kit_classes():
    out = []
    for mod in (cidar, ecoflex, moclokit, plant, ytk):
        for name, cls in sorted(vars(mod).items()):
            if (
                inspect.isclass(cls)
                and issubclass(cls, StructuredRecord)
                and cls.__module__ == mod.__name__
            ):
                out.append(cls)
    return out


ENZ5 = ["BsaI", "BsmBI", "BpiI", "BbsI", "SapI", "BtgZI", "FokI", "Esp3I", "BsmAI"]
ENZ3 = ["BtsI", "BsrDI", "BseRI", "BtsIMutI", "BsgI", "BtsCI", "MmeI"]
ENZX = ["EcoRV", "EcoRI", "PstI", "SmaI", "BcgI", "NotI"]


def generic_classes():
    out = []
    for ename in ENZ5 + ENZ3 + ENZX:
        enz = getattr(R, ename)
        for base in (AbstractModule, Product, Entry, Cassette, Device,
                     AbstractVector, EntryVector, CassetteVector, DeviceVector):
            out.append(type(str("G{}{}".format(base.__name__, ename)), (base,), {"cutter": enz}))
        n = len(enz.ovhgseq) if isinstance(enz.ovhgseq, str) else 0
        sig = ("ACGTACGT"[: max(n, 1)], "TTGCATGC"[: max(n, 1)])
        for base in (Entry, Cassette, EntryVector, CassetteVector):
            out.append(
                type(
                    str("P{}{}".format(base.__name__, ename)),
                    (AbstractPart, base),
                    {"cutter": enz, "signature": sig},
                )
            )
    return out


def probe_entity(tag, cls, rec):
    """Everything one can ask to an entity wrapping the record."""
    before = d_record(rec)
    try:
        ent = cls(rec)
    except Exception as e:
        emit(tag, "new", d_exc(e))
        return None
    observe(tag + "/valid", lambda: ent.is_valid())
    observe(tag + "/start", lambda: ent.overhang_start())
    observe(tag + "/end", lambda: ent.overhang_end())
    observe(tag + "/target", lambda: ent.target_sequence())
    if isinstance(ent, AbstractVector):
        observe(tag + "/placeholder", lambda: ent.placeholder_sequence())
    observe(tag + "/valid2", lambda: ent.is_valid())
    observe(tag + "/match", lambda: ent._match)
    emit(tag + "/unchanged", d_record(rec) == before, ent.record is rec, str(ent.seq))
    return ent


# --- sections -----------------------------------------------------------------


def section_structures():
    for cls in kit_classes() + generic_classes():
        observe("structure/" + cls.__name__, cls.structure)
        observe("regex/" + cls.__name__, lambda: cls._get_regex().pattern)
        emit("level/" + cls.__name__, getattr(cls, "_level", "nolevel"), tuple(c.__name__ for c in cls.__mro__))
    # part structures over many enzymes, including blunt / unknown ones
    for ename in sorted(R.AllEnzymes.elements())[::7]:
        enz = getattr(R, ename)
        for base in (Entry, EntryVector):
            try:
                n = len(enz.ovhgseq)
            except Exception:
                n = 2
            cls = type(str("S" + ename), (AbstractPart, base),
                       {"cutter": enz, "signature": ("ACGTAC"[:n], "GGTTCA"[:n])})
            observe("partstructure/{}/{}".format(ename, base.__name__), cls.structure)
        observe("new/" + ename, lambda: type(str("N" + ename), (AbstractModule,), {"cutter": enz})(
            SeqRecord(Seq("ATGC"))).is_valid())
    observe("abstractpart/nosig", type(str("NoSig"), (AbstractPart, Entry), {"cutter": R.BsaI}).structure)
    observe("abstractpart/nokind", type(str("NoKind"), (AbstractPart,),
                                       {"cutter": R.BsaI, "signature": ("AAAA", "CCCC")}).structure)
    observe("nocutter/module", lambda: AbstractModule(SeqRecord(Seq("ATGC"))))
    observe("nocutter/vector", lambda: AbstractVector(SeqRecord(Seq("ATGC"))))
    observe("nocutter/part", lambda: AbstractPart(SeqRecord(Seq("ATGC"))))


def section_validation():
    classes = [c for c in kit_classes() + generic_classes()]
    for cls in classes:
        name = cls.__name__
        try:
            structure = cls.structure()
            re.compile(DNARegex._transcribe(structure))
            instantiate(structure)
        except Exception:
            structure = None
        inputs = []
        inputs.append(("tiny", CircularRecord(Seq("ATG"), id="tiny")))
        inputs.append(("one", CircularRecord(Seq("n"), id="one")))
        inputs.append(("rand", CircularRecord(Seq(rand_dna(60, "ACGTRYKMSWBDHVN")), id="rand")))
        inputs.append(("randlow", CircularRecord(Seq(rand_dna(40, "acgtnACGTN")), id="randlow")))
        if structure is not None:
            inst = instantiate(structure)
            flank = rand_dna(RNG.randrange(0, 25))
            full = inst + flank
            inputs.append(("inst", CircularRecord(Seq(full), id="inst")))
            inputs.append(("instlow", CircularRecord(Seq(mixed_case(full)), id="instlow")))
            k = RNG.randrange(1, len(inst))
            inputs.append(("wrap", CircularRecord(Seq(rotate(full, k)), id="wrap")))
            inputs.append(("plain", SeqRecord(Seq(rotate(full, k)), id="plain")))
            lin = SeqRecord(Seq(rotate(full, k)), id="linear", annotations={"topology": "linear"})
            inputs.append(("linear", lin))
            lin2 = SeqRecord(Seq(full), id="linear2", annotations={"topology": "LINEAR"})
            inputs.append(("linear2", lin2))
            circ = CircularRecord(Seq(rotate(full, k)), id="circ", annotations={"topology": "Circular"})
            inputs.append(("circ", circ))
            inputs.append(("corrupt", CircularRecord(Seq(corrupt(full)), id="corrupt")))
            inputs.append(("corrupt2", CircularRecord(Seq(rotate(corrupt(inst), k)), id="corrupt2")))
            inputs.append(("short", CircularRecord(Seq(inst[: len(inst) - 1]), id="short")))
            # an additional site of the enzyme in the variable region
            site = cls.cutter.site
            if "N*" in structure and set(site) <= set("ACGT"):
                pos = structure.replace("(", "").replace(")", "").index("N*")
                extra = inst[: pos + 2] + site + inst[pos + 2:]
                feat = with_features(CircularRecord(Seq(rotate(extra + flank, k)), id="extra"))
                inputs.append(("extra", feat))
                inputs.append(("extralow", CircularRecord(Seq((extra + flank).lower()), id="extralow")))
            inputs.append(("feat", with_features(CircularRecord(Seq(rotate(full, k)), id="feat"))))
        for iname, rec in inputs:
            probe_entity("val/{}/{}".format(name, iname), cls, rec)


def bpi_vector(up="ATGC", down="CGTA", ident="vector", filler="CACA", pre="CC", post="GG"):
    # overhang_end .... overhang_start  (structure N(NNNN)(NNGTCTTC N* GAAGACNN)(NNNN)N)
    return pre + up + "TT" + "GTCTTC" + filler + "GAAGAC" + "TT" + down + post


def bpi_module(up, down, body="CACA", flank=""):
    return "GAAGAC" + "TT" + up + body + down + "TT" + "GTCTTC" + flank


class MockVector(AbstractVector):
    cutter = R.BpiI


class MockModule(AbstractModule):
    cutter = R.BpiI


def run_assembly(tag, vector, modules, **kwargs):
    recs = [vector.record] + [m.record for m in modules]
    before = [d_record(r) for r in recs]
    res = observe(tag, lambda: vector.assemble(*modules, **kwargs))
    after = [d_record(r) for r in recs]
    emit(tag + "/inputs-unchanged", [a == b for a, b in zip(after, before)])
    emit(tag + "/inputs-after", after)
    # strict mode: warnings are errors
    def strict():
        with warnings.catch_warnings():
            warnings.simplefilter("error", errors.AssemblyWarning)
            return vector.assemble(*modules, **kwargs)
    observe(tag + "/strict", strict)
    emit(tag + "/inputs-after-strict", [d_record(r) for r in recs])
    return res


def section_assembly():
    V = lambda s, i="vector", cls=CircularRecord: MockVector(cls(Seq(s), id=i))  # noqa: E731
    M = lambda s, i, cls=CircularRecord: MockModule(cls(Seq(s), id=i))  # noqa: E731

    vec = bpi_vector("ATGC", "CGTA")
    # the vector opens with overhang_end (group 1) = ATGC and closes on CGTA
    cases = {}
    cases["single"] = (V(vec), [M(bpi_module("ATGC", "CGTA"), "m1")])
    cases["two"] = (V(vec), [M(bpi_module("ATGC", "GGAA"), "m1"), M(bpi_module("GGAA", "CGTA", "TTTTT"), "m2")])
    cases["two-reordered"] = (V(vec), [M(bpi_module("GGAA", "CGTA", "TTTTT"), "m2"), M(bpi_module("ATGC", "GGAA"), "m1")])
    cases["three-mixedcase"] = (
        V(mixed_case(vec)),
        [M(mixed_case(bpi_module("ATGC", "GGAA")), "m1"), M(bpi_module("GGAA", "TCTC").lower(), "m2"),
         M(bpi_module("TCTC", "CGTA", "AAAAAA"), "m3")],
    )
    cases["wrapped"] = (
        V(rotate(vec, 9)),
        [M(rotate(bpi_module("ATGC", "GGAA", flank="ACACAC"), 11), "m1"),
         M(rotate(bpi_module("GGAA", "CGTA", "TTTTT", flank="GTGTG"), 30), "m2")],
    )
    cases["same-overhangs-vector"] = (V(bpi_vector("ATGC", "ATGC")), [M(bpi_module("ATGC", "ATGC"), "m1")])
    cases["same-overhangs-vector-case"] = (V(bpi_vector("ATGC", "atgc")), [M(bpi_module("ATGC", "ATGC"), "m1")])
    cases["dup"] = (V(vec), [M(bpi_module("ATGC", "CGTA"), "mod1"), M(bpi_module("ATGC", "CGTA", "TATA"), "mod2")])
    cases["dup-case"] = (V(vec), [M(bpi_module("ATGC", "CGTA"), "mod1"), M(bpi_module("atgc", "CGTA", "TATA"), "mod2")])
    cases["dup-same-object"] = (V(vec), [M(bpi_module("ATGC", "CGTA"), "mod1")] * 2)
    cases["revcomp"] = (V(vec), [M(bpi_module("ATGC", "GGAA"), "m1"), M(bpi_module("GCAT", "CGTA"), "m2")])
    cases["revcomp-late"] = (
        V(vec),
        [M(bpi_module("ATGC", "GGAA"), "m1"), M(bpi_module("GGAA", "CGTA"), "m2"), M(bpi_module("TTCC", "CGTA"), "m3")],
    )
    cases["palindrome"] = (V(vec), [M(bpi_module("ATGC", "AATT"), "m1"), M(bpi_module("AATT", "CGTA"), "m2")])
    cases["missing-first"] = (V(vec), [M(bpi_module("ATGA", "CGTA"), "mod1")])
    cases["missing-mid"] = (V(vec), [M(bpi_module("ATGC", "GGAA"), "m1"), M(bpi_module("GGAT", "CGTA"), "m2")])
    cases["missing-last"] = (V(vec), [M(bpi_module("ATGC", "GGAA"), "m1"), M(bpi_module("GGAA", "TCTC"), "m2")])
    cases["loop"] = (V(vec), [M(bpi_module("ATGC", "GGAA"), "m1"), M(bpi_module("GGAA", "ATGC"), "m2")])
    cases["unused"] = (V(vec), [M(bpi_module("ATGC", "CGTA"), "mod1"), M(bpi_module("AAAA", "CCCC"), "mod2"),
                                M(bpi_module("AAAC", "CCCA"), "mod3")])
    cases["invalid-module"] = (V(vec), [M(bpi_module("ATGC", "GGAA"), "m1"), M("ATGCATGC", "bad")])
    cases["invalid-module-first"] = (V(vec), [M("ATGCATGC", "bad"), M(bpi_module("ATGC", "GGAA"), "m1")])
    cases["invalid-vector"] = (V("ATGCATGCAA"), [M(bpi_module("ATGC", "CGTA"), "m1")])
    cases["both-invalid"] = (V("ATG"), [M("A", "bad")])
    cases["illegal-module"] = (V(vec), [M(bpi_module("ATGC", "CGTA", "CAGAAGACCA"), "ill")])
    cases["illegal-module-2"] = (V(vec), [M(bpi_module("ATGC", "GGAA"), "m1"), M(bpi_module("GGAA", "CGTA", "CAGTCTTCAA"), "ill")])
    cases["illegal-vector"] = (V(bpi_vector("ATGC", "CGTA", filler="CAGAAGACCA")), [M(bpi_module("ATGC", "CGTA"), "m1")])
    cases["ambiguous"] = (V(bpi_vector("ATGN", "CGTA")), [M(bpi_module("ATGN", "CGTA"), "m1")])
    cases["plain-records"] = (V(vec, cls=SeqRecord), [M(bpi_module("ATGC", "CGTA"), "m1", cls=SeqRecord)])
    cases["plain-module"] = (V(vec), [M(bpi_module("ATGC", "CGTA"), "m1", cls=SeqRecord)])
    cases["vector-as-module"] = (V(vec), [V(vec, "v2")])
    for name in sorted(cases):
        vector, modules = cases[name]
        run_assembly("asm/" + name, vector, modules)

    # options
    vector, modules = V(vec), [M(bpi_module("ATGC", "CGTA"), "m1")]
    run_assembly("asm/options", vector, modules, id="myid", name="myname")
    run_assembly("asm/options-extra", vector, modules, id="myid", foo=1)
    observe("asm/nomodule", lambda: vector.assemble())
    observe("asm/manager-positional", lambda: AssemblyManager(vector, modules, "i", "n").assemble())
    observe("asm/manager-kw", lambda: AssemblyManager(vector=vector, modules=modules, id_="i2", name="n2").assemble())
    mgr = AssemblyManager(vector, modules)
    emit("asm/manager-attrs", mgr.vector is vector, mgr.modules is modules,
         [e is x for e, x in zip(mgr.elements, modules + [vector])], mgr.name, mgr.id)
    observe("asm/manager-modmap", lambda: mgr._generate_modules_map())
    observe("asm/manager-generate", lambda: mgr._generate_assembly(mgr._generate_modules_map()))
    observe("asm/manager-generate-empty", lambda: mgr._generate_assembly({}))
    emit("asm/manager-rx", AssemblyManager._CITATION_RX.pattern)

    # annotated records with citations
    def annotated(seq, ident, refs=True):
        return with_features(CircularRecord(Seq(seq), id=ident, name=ident + "n"), refs=refs)

    for name, mods in [
        ("ok", [("m1", bpi_module("ATGC", "GGAA", "ACACACACACAC")), ("m2", bpi_module("GGAA", "CGTA", "TGTGTGTGTGTG"))]),
        ("missing", [("m1", bpi_module("ATGC", "GGAA", "ACACACACACAC")), ("m2", bpi_module("GGAT", "CGTA", "TGTGTGTGTGTG"))]),
        ("dup", [("m1", bpi_module("ATGC", "GGAA", "ACACACACACAC")), ("m2", bpi_module("ATGC", "CGTA", "TGTGTGTGTGTG"))]),
        ("invalid", [("m1", bpi_module("ATGC", "GGAA", "ACACACACACAC")), ("m2", "ACGT" * 8)]),
        ("unused", [("m1", bpi_module("ATGC", "CGTA", "ACACACACACAC")), ("m2", bpi_module("GGAT", "CGTT", "TGTGTGTGTGTG"))]),
    ]:
        vector = MockVector(annotated(rotate(bpi_vector("ATGC", "CGTA", filler="CACACACACACACACA", pre="CCAAAAAAAACC"), 5), "vec"))
        modules = [MockModule(annotated(rotate(s, 7), i)) for i, s in mods]
        run_assembly("cite/" + name, vector, modules)
        # a second time on the same objects
        run_assembly("cite2/" + name, vector, modules)

    # broken citations
    for name, cits, refs in [
        ("badformat", ["1"], True),
        ("empty", ["[]"], True),
        ("outofrange", ["[7]"], True),
        ("zero", ["[0]"], True),
        ("norefs", ["[1]"], False),
        ("text", ["[1] see"], True),
    ]:
        vrec = annotated(bpi_vector("ATGC", "CGTA", filler="CACACACACACACACA"), "vec")
        mrec = annotated(bpi_module("ATGC", "CGTA", "ACACACACACAC"), "m1", refs=refs)
        mrec.features[1].qualifiers["citation"] = list(cits)
        run_assembly("citebad/" + name, MockVector(vrec), [MockModule(mrec)])
        mgr = AssemblyManager(MockVector(vrec), [MockModule(mrec)])
        observe("citebad/deref/" + name, mgr._deref_citations, mrec)
        emit("citebad/deref-state/" + name, d_record(mrec))
        observe("citebad/ref/" + name, mgr._ref_citations, mrec)
        emit("citebad/ref-state/" + name, d_record(mrec))

    # 3' overhang enzymes and other 5' enzymes, through parts
    for ename in ENZ3 + ["BsaI", "SapI", "BsmBI"]:
        enz = getattr(R, ename)
        n = len(enz.ovhgseq)
        sa, sb, sc = "ACGGACGT"[:n], "TTGCATGC"[:n], "GACTGACA"[:n]

        def part(base, sig):
            return type(str("A{}{}".format(base.__name__, ename)), (AbstractPart, base),
                        {"cutter": enz, "signature": sig})

        vcls = part(EntryVector, (sc, sa))
        m1cls = part(Entry, (sa, sb))
        m2cls = part(Entry, (sb, sc))
        for trial in range(2):
            filler = 10 + trial
            vseq = instantiate(vcls.structure(), filler) + rand_dna(8)
            m1seq = instantiate(m1cls.structure(), filler) + rand_dna(5)
            m2seq = instantiate(m2cls.structure(), filler) + rand_dna(6)
            if trial:
                vseq, m1seq, m2seq = rotate(vseq, 13), mixed_case(rotate(m1seq, 17)), rotate(m2seq, 3)
            vector = vcls(with_features(CircularRecord(Seq(vseq), id="v" + ename)))
            m1 = m1cls(with_features(CircularRecord(Seq(m1seq), id="m1" + ename)))
            m2 = m2cls(CircularRecord(Seq(m2seq), id="m2" + ename))
            for ent in (vector, m1, m2):
                probe_entity("asm3/{}/{}/{}".format(ename, trial, ent.record.id), type(ent), ent.record)
            run_assembly("asm3/{}/{}/full".format(ename, trial), vector, [m2, m1])
            run_assembly("asm3/{}/{}/partial".format(ename, trial), vector, [m1])
            run_assembly("asm3/{}/{}/swapped".format(ename, trial), vector, [m1cls(m2.record), m2])

    # kit level assemblies: YTK-like cassette built from generated parts
    parts = [ytk.YTKPart2, ytk.YTKPart3, ytk.YTKPart4]
    recs = [CircularRecord(Seq(instantiate(p.structure(), 15) + rand_dna(20)), id=p.__name__) for p in parts]
    vrec = CircularRecord(Seq(instantiate(ytk.YTKPart8a.structure(), 20) + rand_dna(10)), id="v8a")
    for p, r in zip(parts, recs):
        probe_entity("ytk/" + p.__name__, p, r)
    probe_entity("ytk/vector", ytk.YTKPart8a, vrec)
    run_assembly("ytk/partial", ytk.YTKPart8a(vrec), [p(r) for p, r in zip(parts, recs)])
    run_assembly("ytk/cassette-vector", ytk.YTKCassetteVector(vrec), [ytk.YTKEntry(r) for r in recs])


def section_characterize():
    for base in (ytk.YTKPart, cidar.CIDARPart, ecoflex.EcoFlexPart, moclokit.MoCloPart):
        subs = sorted(base.__subclasses__(), key=lambda c: c.__name__)
        for sub in subs[:6]:
            try:
                seq = instantiate(sub.structure(), 14) + rand_dna(9)
            except Exception as e:
                emit("char/skip", sub.__name__, type(e).__name__)
                continue
            rec = CircularRecord(Seq(rotate(seq, 5)), id="c" + sub.__name__)
            res = observe("char/{}/{}".format(base.__name__, sub.__name__),
                          lambda: type(base.characterize(rec)).__name__)
        observe("char/{}/none".format(base.__name__), base.characterize, CircularRecord(Seq("ATGC"), id="none"))


def section_errors():
    rec = SeqRecord(Seq("ATGC"), id="r1")
    ent = MockModule(CircularRecord(Seq("ATGC"), id="e1"))
    ent2 = MockModule(CircularRecord(Seq("ATGG"), id="e2"))
    builders = {
        "IS/plain": lambda: errors.InvalidSequence(Seq("ATGC")),
        "IS/details": lambda: errors.InvalidSequence(Seq("ATGC"), details="some details"),
        "IS/exc": lambda: errors.InvalidSequence(rec, ValueError("x"), "d"),
        "IS/kw": lambda: errors.InvalidSequence(sequence="ATGC", exc=None, details=None),
        "IS/baddetails": lambda: errors.InvalidSequence("ATGC", details=3),
        "IS/braces": lambda: errors.InvalidSequence("AT{}GC", details="{}"),
        "IS/braces2": lambda: errors.InvalidSequence("ATGC", details="{0} {1}"),
        "DM/braces": lambda: errors.DuplicateModules(ent, details="{0}{0}"),
        "MM/braces": lambda: errors.MissingModule("A{x}", details="{"),
        "UM/braces": lambda: errors.UnusedModules(ent, details="{}"),
        "IS/noarg": lambda: errors.InvalidSequence(),
        "IS/extra": lambda: errors.InvalidSequence("A", None, None, 4),
        "IS/badkw": lambda: errors.InvalidSequence("A", foo=1),
        "ILS/plain": lambda: errors.IllegalSite(Seq("ATGC")),
        "ILS/details": lambda: errors.IllegalSite(Seq("ATGC"), details="dd"),
        "DM/two": lambda: errors.DuplicateModules(ent, ent2),
        "DM/details": lambda: errors.DuplicateModules(ent, ent2, details="same start overhang: 'ATGC'"),
        "DM/none": lambda: errors.DuplicateModules(),
        "DM/otherkw": lambda: errors.DuplicateModules(ent, foo=1),
        "DM/baddetails": lambda: errors.DuplicateModules(ent, details=1),
        "DM/badmember": lambda: errors.DuplicateModules("x"),
        "MM/plain": lambda: errors.MissingModule(Seq("ATGC")),
        "MM/str": lambda: errors.MissingModule("ATGC", details="dd"),
        "MM/kw": lambda: errors.MissingModule(start_overhang="ATGC"),
        "MM/noarg": lambda: errors.MissingModule(),
        "MM/extra": lambda: errors.MissingModule("A", "B"),
        "MM/otherkw": lambda: errors.MissingModule("A", foo=2),
        "MM/baddetails": lambda: errors.MissingModule("A", details=2),
        "UM/one": lambda: errors.UnusedModules(ent),
        "UM/two": lambda: errors.UnusedModules(ent, ent2, details="dd"),
        "UM/intdetails": lambda: errors.UnusedModules(ent, details=5),
        "UM/none": lambda: errors.UnusedModules(),
        "UM/otherkw": lambda: errors.UnusedModules(ent, foo=2),
        "ME": lambda: errors.MocloError("a", 1),
        "AE": lambda: errors.AssemblyError("a", 1),
        "AW": lambda: errors.AssemblyWarning("a"),
    }
    for name in sorted(builders):
        observe("err/" + name, builders[name])
    for name in ("MocloError", "InvalidSequence", "IllegalSite", "AssemblyError", "DuplicateModules",
                 "MissingModule", "AssemblyWarning", "UnusedModules"):
        cls = getattr(errors, name)
        emit("err/mro/" + name, tuple(c.__name__ for c in cls.__mro__), cls.__module__,
             cls._msg if issubclass(cls, errors.InvalidSequence) else None)
    # raising / catching
    for exc in (errors.IllegalSite("A"), errors.InvalidSequence("A")):
        try:
            raise exc
        except ValueError as e:
            emit("err/catch", type(e).__name__, isinstance(e, errors.MocloError))
    # pickling-free copy
    observe("err/copy", lambda: copy.copy(errors.MissingModule("ATGC", details="x")))


def section_regex():
    rx = DNARegex("GGTCTCN(NNNN)(NN*N)(NNNN)NGAGACC")
    emit("rx/pattern", rx.pattern, rx.regex.pattern)
    seq = "GGTCTCAACGTTTTTTTTGCATAGAGACC" + "CCCC"
    for k in (0, 3, 10, 28, 31):
        for cls in (CircularRecord, SeqRecord):
            rec = cls(Seq(rotate(seq, k)), id="rx")
            for linear in (True, False):
                def go():
                    m = rx.search(rec, linear=linear)
                    if m is None:
                        return None
                    return (m.start(), m.end(), m.span(), m.span(1), m.span(2), m.span(3),
                            [d_value(m.group(i)) for i in range(4)])
                observe("rx/{}/{}/{}".format(k, cls.__name__, linear), go)
        observe("rx/seq/{}".format(k), lambda: rx.search(Seq(rotate(seq, k)), linear=False))
    observe("rx/str", lambda: rx.search("ATGC"))
    observe("rx/pos", lambda: rx.search(Seq(seq), 1))
    observe("rx/endpos", lambda: rx.search(Seq(seq), 0, 0))


def section_registries():
    from moclo.registry.ytk import YTKRegistry, PTKRegistry
    from moclo.registry.cidar import CIDARRegistry
    from moclo.registry.ecoflex import EcoFlexRegistry
    regs = [YTKRegistry, PTKRegistry, CIDARRegistry, EcoFlexRegistry]
    try:
        from moclo.registry.moclo import MoCloRegistry
        regs.append(MoCloRegistry)
    except ImportError:
        pass
    try:
        from moclo.registry.plant import PlantRegistry
        regs.append(PlantRegistry)
    except ImportError:
        pass
    for regcls in regs:
        try:
            reg = regcls()
            ids = sorted(reg)
        except Exception as e:
            emit("reg/" + regcls.__name__, "unavailable", type(e).__name__)
            continue
        emit("reg/" + regcls.__name__, len(ids))
        for i in ids[::4]:
            item = reg[i]
            ent = item.entity
            tag = "reg/{}/{}".format(regcls.__name__, i)
            emit(tag, type(ent).__name__, item.resistance)
            observe(tag + "/valid", ent.is_valid)
            observe(tag + "/start", ent.overhang_start)
            observe(tag + "/end", ent.overhang_end)
            observe(tag + "/target", lambda: hashlib.md5(repr(d_record(ent.target_sequence())).encode()).hexdigest())
            if isinstance(ent, AbstractVector):
                observe(tag + "/placeholder",
                        lambda: hashlib.md5(repr(d_record(ent.placeholder_sequence())).encode()).hexdigest())
    # a real assembly from the CIDAR registry, with annotated records
    reg = CIDARRegistry()
    vector = reg["DVK_AE"].entity
    mods = [reg[x].entity for x in ("J23102_AB", "BCD2_BC", "E1010m_CD", "B0015_DE")]
    res = observe("reg/cidar-assembly", lambda: hashlib.md5(repr(d_record(vector.assemble(*mods))).encode()).hexdigest())
    observe("reg/cidar-assembly-missing", lambda: vector.assemble(*mods[:2] + mods[3:]))
    emit("reg/cidar-after", hashlib.md5(repr([d_record(m.record) for m in mods + [vector]]).encode()).hexdigest())
    observe("reg/cidar-assembly-illegal", lambda: reg["DVK_AE"].entity.assemble(
        cidar.CIDARPromoter(reg["R0063_AB"].entity.record), *mods[1:]))


def main():
    section_structures()
    section_validation()
    section_assembly()
    section_characterize()
    section_errors()
    section_regex()
    section_registries()
    blob = "\n".join(LINES)
    # the default repr of an entity ends up in one documented message
    blob = re.sub(r" at 0x[0-9a-fA-F]+", " at 0xADDR", blob)
    if "/tmp/agents9" in blob or re.search(r" at 0x[0-9a-fA-F]{6,}", blob):
        print("WARNING: digest contains paths or addresses")
    dump = os.environ.get("EQUIV_DUMP")
    if dump:
        with open(dump, "w") as f:
            f.write(blob + "\n")
    print("observations:", len(LINES))
    print("digest:", hashlib.sha256(blob.encode("utf-8")).hexdigest())


if __name__ == "__main__":
    main()
