# coding: utf-8
"""Differential test for the rewrite of `EmbeddedRegistry._data`, `__len__`, `__iter__`."""
import sys

sys.path.insert(0, "/tmp/agentsR4/R19")
import tests  # noqa: E402,F401

import glob  # noqa: E402
import hashlib  # noqa: E402
import io  # noqa: E402
import os  # noqa: E402
import random  # noqa: E402
import shutil  # noqa: E402
import tarfile  # noqa: E402
import tempfile  # noqa: E402
import warnings  # noqa: E402

warnings.simplefilter("ignore")

import pkg_resources  # noqa: E402

from moclo.kits import ytk  # noqa: E402
from moclo.record import CircularRecord  # noqa: E402
from moclo.registry import base  # noqa: E402
from moclo.registry.base import EmbeddedRegistry, Item  # noqa: E402
from tests._utils import build_registries  # noqa: E402

ROOT = "/tmp/agentsR4/R19"
RESULTS = []
WORK = tempfile.mkdtemp(prefix="r19_3_")
STREAMS = []
HISTORY = []

_resource_stream = pkg_resources.resource_stream


def tracking_resource_stream(module, name):
    stream = _resource_stream(module, name)
    STREAMS.append(stream)
    HISTORY.append(stream)
    return stream


pkg_resources.resource_stream = tracking_resource_stream


def streams_state():
    state = [s.closed for s in STREAMS]
    del STREAMS[:]
    return state


def clean(text):
    return text.replace(WORK, "<WORK>")


def attempt(tag, func, *args):
    try:
        out = ("ok", func(*args))
    except BaseException as err:
        out = ("raise", type(err).__name__, clean(str(err)))
    RESULTS.append((tag, out if out[0] == "raise" else ("ok", describe(out[1])), streams_state()))
    return out


def describe(value):
    if isinstance(value, Item):
        rec = value.entity.record if hasattr(value.entity, "record") else None
        return (
            "Item", value.id, value.name, value.resistance, type(value.entity).__name__,
            None if rec is None else (
                type(rec).__name__, rec.id, rec.name, rec.description, len(rec.seq),
                hashlib.md5(str(rec.seq).encode()).hexdigest(),
                rec.annotations.get("comment"), len(rec.features),
            ),
        )
    if isinstance(value, (list, tuple)):
        return [describe(v) for v in value]
    if isinstance(value, (str, int, bool, type(None))):
        return value
    return type(value).__name__


# --- archives ---------------------------------------------------------------

def source_texts(rng):
    paths = sorted(glob.glob(os.path.join(ROOT, "moclo-ytk", "registry", "ytk", "*.gb")))
    out = []
    for path in rng.sample(paths, 30):
        with open(path) as handle:
            out.append((os.path.basename(path)[:-3], handle.read()))
    return out


def mutate(rng, ident, text, n):
    kind = n % 10
    name = "{}_{}".format(ident, kind)
    if kind == 0:
        return ident + ".gb", text
    if kind == 1:  # renamed copy
        return name + ".gb", text.replace(ident, "ren" + ident[4:])
    if kind == 2:  # same identifier twice under another member name (duplicate id)
        return "dup_" + ident + ".gb", text.replace("DEFINITION  ", "DEFINITION  second copy of ")
    if kind == 3:  # no resistance cassette
        for label in ("CmR", "AmpR", "KanR", "SpecR", "SmR"):
            text = text.replace('/label="{}"'.format(label), '/label="nope"')
        return name + ".gb", text
    if kind == 4:  # two cassettes on the same feature
        for label in ("CmR", "AmpR", "SpecR", "SmR"):
            text = text.replace('/label="{}"'.format(label),
                                '/label="{}"\n                     /label="KanR"'.format(label))
        return name + ".gb", text
    if kind == 5:  # hint removed: StopIteration out of YTKRegistry._load_entity
        if rng.random() < 0.3:  # no comment at all: KeyError('comment')
            return name + ".gb", "\n".join(l for l in text.splitlines() if not l.startswith("COMMENT     YTK:")) + "\n"
        lines = ["COMMENT     nothing to see" if l.startswith("COMMENT     YTK:") else l for l in text.splitlines()]
        return name + ".gb", "\n".join(lines) + "\n"
    if kind == 6:  # unknown type: KeyError
        lines = ["COMMENT     YTK:99" if l.startswith("COMMENT     YTK:") else l for l in text.splitlines()]
        return name + ".gb", "\n".join(lines) + "\n"
    if kind == 7:
        return name + ".gb", text + text  # two records in one member
    if kind == 8:
        return name + ".gb", ""  # empty member
    return name + ".gb", text.lower().replace("locus", "LOCUS", 1)


def add_member(tar, name, text):
    data = text.encode("utf-8")
    info = tarfile.TarInfo(name)
    info.size = len(data)
    tar.addfile(info, io.BytesIO(data))


def build_archives(rng):
    sources = source_texts(rng)
    archives = {}

    def write(fname, mode, members, dirs=()):
        with tarfile.open(os.path.join(WORK, fname), mode) as tar:
            for d in dirs:
                info = tarfile.TarInfo(d)
                info.type = tarfile.DIRTYPE
                tar.addfile(info)
            for name, text in members:
                add_member(tar, name, text)
        archives[fname] = [m[0] for m in members]

    good = [(ident + ".gb", text) for ident, text in sources]
    write("good.tar.gz", "w:gz", good)
    write("empty.tar.gz", "w:gz", [])
    write("plain.tar", "w", good[:5])
    write("bzip.tar.bz2", "w:bz2", good[:5])
    write("dups.tar.gz", "w:gz", good[:6] + [mutate(rng, i, t, 2) for i, t in sources[:6]] + good[2:4])
    write("dirs.tar.gz", "w:gz", good[:3], dirs=["sub"])
    write("dirlast.tar.gz", "w:gz", good[:3])
    with tarfile.open(os.path.join(WORK, "dirlast.tar"), "w") as tar:
        for name, text in good[:3]:
            add_member(tar, name, text)
        info = tarfile.TarInfo("zz")
        info.type = tarfile.DIRTYPE
        tar.addfile(info)
    import gzip
    with open(os.path.join(WORK, "dirlast.tar"), "rb") as src, gzip.open(os.path.join(WORK, "dirlast.tar.gz"), "wb") as dst:
        dst.write(src.read())
    # one archive per failure kind, the failing member sitting at a random rank
    for kind in range(1, 10):
        for rep in range(3):
            members = list(good[rep * 4: rep * 4 + 4])
            ident, text = sources[10 + kind + rep]
            members.insert(rng.randrange(len(members) + 1), mutate(rng, ident, text, kind))
            write("kind{}_{}.tar.gz".format(kind, rep), "w:gz", members)
    # random mixtures
    for n in range(25):
        members = []
        for _ in range(rng.randrange(1, 9)):
            ident, text = rng.choice(sources)
            members.append(mutate(rng, ident, text, rng.choice([0, 0, 0, 1, 1, 2, rng.randrange(10)])))
        write("mix{}.tar.gz".format(n), "w:gz", members)
    with open(os.path.join(WORK, "garbage.tar.gz"), "wb") as handle:
        handle.write(b"this is not an archive at all" * 50)
    with open(os.path.join(WORK, "truncated.tar.gz"), "wb") as handle, open(os.path.join(WORK, "good.tar.gz"), "rb") as src:
        handle.write(src.read()[:2000])
    with open(os.path.join(WORK, "zero.tar.gz"), "wb") as handle:
        pass
    with open(os.path.join(WORK, "r19res3.py"), "w") as handle:
        handle.write("# resources of the differential test\n")
    return sorted(archives) + ["garbage.tar.gz", "truncated.tar.gz", "zero.tar.gz", "missing.tar.gz"]


# --- registries under test --------------------------------------------------

def make_classes(fname):
    from moclo.registry.ytk import YTKRegistry

    class KitLike(YTKRegistry):
        _module = "r19res3"
        _file = fname

    calls = []

    class Custom(EmbeddedRegistry):
        _module = "r19res3"
        _file = fname

        def _load_name(self, record):
            calls.append(("name", record.id))
            return record.description.upper()

        def _load_resistance(self, record):
            calls.append(("resistance", record.id))
            try:
                return super(Custom, self)._load_resistance(record)
            except RuntimeError as err:
                if "dup" in str(err):
                    raise
                return "unknown ({})".format(err)

        def _load_entity(self, record):
            calls.append(("entity", record.id))
            if record.id.endswith("7"):
                raise LookupError("no entity for " + record.id)
            return ytk.YTKPart(record) if False else _Entity(record)

    return KitLike, Custom, calls


class _Entity(object):
    def __init__(self, record):
        self.record = record


def exercise(tag, cls, calls=None):
    registry = cls()
    attempt((tag, "len"), len, registry)
    attempt((tag, "list"), list, registry)
    # laziness: creating the iterator does not touch the archive
    iterator = attempt((tag, "iter"), iter, registry)[1]
    RESULTS.append((tag, "opened by iter()", len(STREAMS)))
    attempt((tag, "next1"), next, iterator)
    attempt((tag, "next2"), next, iterator)
    mark = len(HISTORY)
    del HISTORY[:]
    iterator2 = iter(registry)
    attempt((tag, "second iterator"), next, iterator2)
    RESULTS.append((tag, "open while suspended", [s.closed for s in HISTORY]))
    attempt((tag, "close"), iterator.close)
    attempt((tag, "close second"), iterator2.close)
    RESULTS.append((tag, "closed after close()", [s.closed for s in HISTORY]))
    iterator3 = iter(registry)
    attempt((tag, "third iterator"), next, iterator3)
    del iterator3  # dropped without being exhausted
    RESULTS.append((tag, "closed after garbage collection", [s.closed for s in HISTORY]))
    attempt((tag, "next after close"), next, iterator)
    keys = attempt((tag, "keys"), lambda: list(registry.keys()))
    probes = ["pYTK001", "missing", "", None]
    if keys[0] == "ok":
        probes = [k[:-3] for k in keys[1]] + probes
    for probe in probes:
        first = attempt((tag, "get", probe), registry.__getitem__, probe)
        if first[0] == "ok":
            RESULTS.append((tag, "cached", probe, registry[probe] is first[1],
                            isinstance(first[1].entity.record, CircularRecord)))
        attempt((tag, "in", probe), registry.__contains__, probe)
    attempt((tag, "values"), lambda: list(registry.values()))
    attempt((tag, "items order"), lambda: [k for k, _ in registry.items()])
    attempt((tag, "get default"), registry.get, "missing", "fallback")
    attempt((tag, "len again"), len, registry)
    RESULTS.append((tag, "eq/hash", registry == cls(), hash(registry) == hash(cls()),
                    registry == object(), registry != cls()))
    if calls is not None:
        RESULTS.append((tag, "hook calls", list(calls)))
        del calls[:]
    RESULTS.append((tag, "leftover streams", streams_state()))


def main():
    rng = random.Random(190003)
    for kit, name in [("ytk", "ytk"), ("ytk", "ptk"), ("cidar", "cidar"), ("ecoflex", "ecoflex"), ("plant", "plant")]:
        path = os.path.join(ROOT, "moclo-{}".format(kit), "moclo", "registry", name + ".tar.gz")
        if not os.path.exists(path):
            build_registries(kit)

    sys.path.insert(0, WORK)
    try:
        fnames = build_archives(rng)
        for fname in fnames:
            KitLike, Custom, calls = make_classes(fname)
            exercise((fname, "KitLike"), KitLike)
            exercise((fname, "Custom"), Custom, calls)

        # an abstract registry used directly: NotImplemented module and file
        class Unconfigured(EmbeddedRegistry):
            def _load_entity(self, record):
                return _Entity(record)

        attempt(("abstract", "new"), EmbeddedRegistry)
        attempt(("abstract", "len"), len, Unconfigured())
        attempt(("abstract", "list"), list, Unconfigured())
        attempt(("abstract", "get"), Unconfigured().__getitem__, "x")

        # the real kits
        from moclo.registry.ytk import YTKRegistry, PTKRegistry
        from moclo.registry.cidar import CIDARRegistry
        from moclo.registry.ecoflex import EcoFlexRegistry
        from moclo.registry.plant import PlantRegistry

        for cls in (YTKRegistry, PTKRegistry, CIDARRegistry, EcoFlexRegistry, PlantRegistry):
            registry = cls()
            attempt((cls.__name__, "len"), len, registry)
            attempt((cls.__name__, "list"), list, registry)
            attempt((cls.__name__, "values"), lambda: list(registry.values()))
            attempt((cls.__name__, "order"), lambda: list(registry._data))
            RESULTS.append((cls.__name__, "all in", all(k in registry for k in registry), streams_state()))
    finally:
        shutil.rmtree(WORK, ignore_errors=True)

    digest = hashlib.sha256(repr(RESULTS).encode("utf-8")).hexdigest()
    print(len(RESULTS), digest)


if __name__ == "__main__":
    main()
