# coding: utf-8
"""Differential test for the assembly code path (property C07).

Run as:  cd /tmp/agents6/C07 && /venv/bin/python pairs_out/C07_q1/equiv.py

Builds a few hundred vectors / modules (three enzymes, rotations so that the
structure wraps the origin, mixed letter case, features of every shape,
citations against own / shared / duplicated reference lists, plain SeqRecord
inputs, linear records), runs successful, warning and failing assemblies on
them (twice on the same objects), exercises the record operations the
assembly relies on, and prints one digest of everything observed: results,
exception types and messages, warnings, and the state of every input
afterwards.
"""
from __future__ import print_function

import sys

sys.path.insert(0, "/tmp/agents6/C07")
import tests  # noqa: F401,E402  (splices the kits into the moclo namespace)

import hashlib  # noqa: E402
import random  # noqa: E402
import re  # noqa: E402
import warnings  # noqa: E402

from Bio.Seq import Seq  # noqa: E402
from Bio.SeqRecord import SeqRecord  # noqa: E402
from Bio.SeqFeature import (  # noqa: E402
    SeqFeature,
    FeatureLocation,
    CompoundLocation,
    Reference,
    BeforePosition,
    AfterPosition,
)
from Bio.Restriction import BpiI, BsaI, BsmBI, BtsI, EcoRV  # noqa: E402

from moclo import errors  # noqa: E402
from moclo.record import CircularRecord  # noqa: E402
from moclo.core.vectors import AbstractVector, EntryVector, CassetteVector  # noqa: E402
from moclo.core.modules import AbstractModule, Product, Entry  # noqa: E402
from moclo.core.parts import AbstractPart  # noqa: E402

LOG = []


def log(*items):
    LOG.append(repr(items))


# --- enzymes / classes -------------------------------------------------------


def _classes(enzyme, vbase, mbase):
    vec = type(str("V" + enzyme.__name__), (vbase,), {"cutter": enzyme})
    mod = type(str("M" + enzyme.__name__), (mbase,), {"cutter": enzyme})
    return vec, mod


ENZYMES = {
    "BpiI": ("GAAGAC", 2) + _classes(BpiI, EntryVector, Product),
    "BsaI": ("GGTCTC", 1) + _classes(BsaI, CassetteVector, Entry),
    "BsmBI": ("CGTCTC", 1) + _classes(BsmBI, AbstractVector, AbstractModule),
}
SITES = ["GAAGAC", "GTCTTC", "GGTCTC", "GAGACC", "CGTCTC", "GAGACG", "GCAGTG", "CACTGC"]


def rc(text):
    return str(Seq(text).reverse_complement())


def clean_dna(rng, n):
    while True:
        s = "".join(rng.choice("ACGT") for _ in range(n))
        if not any(site in s + s for site in SITES):
            return s


def overhangs(rng, n):
    """n distinct, non palindromic 4-mers, none the reverse complement of another."""
    out = []
    while len(out) < n:
        o = "".join(rng.choice("ACGT") for _ in range(4))
        if o == rc(o) or o in out or rc(o) in out:
            continue
        if any(site.startswith(o) or site.endswith(o) for site in SITES):
            continue
        out.append(o)
    return out


def count_sites(text):
    return sum(
        1 for site in SITES for i in range(len(text)) if text.startswith(site, i)
    )


def join_clean(rng, core, n):
    """`n` random letters closing `core` into a circle without a new site."""
    inside = count_sites(core)
    while True:
        mid = clean_dna(rng, n)
        whole = core + mid
        if count_sites(whole + whole[:5]) == inside:
            return mid


# --- records -----------------------------------------------------------------


def make_reference(tag, n):
    ref = Reference()
    ref.title = "title {} {}".format(tag, n)
    ref.authors = "author {}".format(n)
    ref.journal = "journal {}".format(tag)
    ref.pubmed_id = str(1000 + n)
    return ref


def random_case(rng, text):
    return "".join(c.lower() if rng.random() < 0.3 else c for c in text)


def decorate(rng, rec, tag, refs, cite_mode):
    """Features of all shapes; citations according to `cite_mode`."""
    n = len(rec)
    feats = []
    for k in range(rng.randint(2, 7)):
        a = rng.randrange(0, n - 2)
        b = rng.randrange(a + 1, min(n, a + 1 + rng.randint(1, n // 2)) + 1)
        b = min(b, n)
        strand = rng.choice([1, -1, None])
        shape = rng.random()
        if shape < 0.65:
            loc = FeatureLocation(a, b, strand)
        elif shape < 0.8 and b - a > 4:
            m = (a + b) // 2
            loc = CompoundLocation(
                [FeatureLocation(a, m - 1, strand), FeatureLocation(m + 1, b, strand)]
            )
        elif shape < 0.9:
            loc = FeatureLocation(BeforePosition(a), AfterPosition(b), strand)
        else:
            # wraps the origin
            loc = CompoundLocation(
                [FeatureLocation(n - 3, n, strand), FeatureLocation(0, 2, strand)]
            )
        quals = {"label": ["{}-f{}".format(tag, k)], "note": ["n{}".format(k)]}
        if refs and cite_mode != "none" and rng.random() < 0.7:
            picks = [rng.randrange(len(refs)) for _ in range(rng.randint(1, 2))]
            quals["citation"] = ["[{}]".format(p + 1) for p in picks]
        feats.append(
            SeqFeature(
                loc,
                type=rng.choice(["CDS", "misc_feature", "promoter"]),
                id="{}.{}".format(tag, k),
                qualifiers=quals,
            )
        )
    if rng.random() < 0.5:
        quals = {"organism": ["x"], "mol_type": ["other DNA"]}
        if refs and cite_mode != "none":
            quals["citation"] = ["[1]"]
        feats.append(SeqFeature(FeatureLocation(0, n), type="source", qualifiers=quals))
    if rng.random() < 0.02:
        feats.append(SeqFeature(None, type="misc_feature", qualifiers={"label": ["nowhere"]}))
    rec.features.extend(feats)
    if cite_mode == "invalid":
        for f in rec.features:
            if "citation" in f.qualifiers:
                f.qualifiers["citation"].append("ref 3")
                break
    if cite_mode == "range":
        for f in rec.features:
            if "citation" in f.qualifiers:
                f.qualifiers["citation"].append("[{}]".format(len(refs) + 3))
                break
    if cite_mode == "empty":
        for f in rec.features:
            if "citation" in f.qualifiers:
                f.qualifiers["citation"].append("[]")
                break


def build_record(rng, core, tag, refs, cite_mode, kind, rotate=True):
    """Wrap `core` + backbone in a record, decorated and rotated."""
    backbone = join_clean(rng, core, rng.randint(10, 40))
    text = core + backbone
    annotations = {"molecule_type": "DNA"}
    topo = rng.random()
    if topo < 0.5:
        annotations["topology"] = "circular"
    if kind == "linear":
        annotations["topology"] = "linear"
    if refs is not None and (refs or rng.random() < 0.5):
        annotations["references"] = refs
    annotations["comment"] = ["made for {}".format(tag)]
    base = SeqRecord(
        Seq(random_case(rng, text)),
        id=tag,
        name=tag + "_name",
        description="the {} record".format(tag),
        dbxrefs=["db:{}".format(tag)],
        annotations=annotations,
    )
    decorate(rng, base, tag, refs or [], cite_mode)
    if kind in ("plain", "linear"):
        return base
    if rng.random() < 0.2:
        base.letter_annotations["phred_quality"] = [
            rng.randint(1, 40) for _ in range(len(base))
        ]
    rec = CircularRecord(
        base.seq,
        base.id,
        base.name,
        base.description,
        base.dbxrefs,
        base.features,
        base.annotations,
        base.letter_annotations,
    )
    if rotate:
        k = rng.choice([0, 1, 3, len(core) // 2, len(core) - 2, len(rec) - 1, rng.randrange(len(rec))])
        if k:
            # independent rotation (not the library's): letters only, the
            # features are re-made on the rotated letters
            letters = str(rec.seq)
            letters = letters[-k:] + letters[:-k]
            fresh = CircularRecord(
                Seq(letters),
                rec.id,
                rec.name,
                rec.description,
                list(rec.dbxrefs),
                [],
                dict(rec.annotations),
            )
            decorate(rng, fresh, tag, refs or [], cite_mode)
            rec = fresh
    return rec


def module_core(rng, enzyme, start, end, size=None):
    site, gap = ENZYMES[enzyme][:2]
    target = clean_dna(rng, size or rng.randint(3, 30))
    left = site + clean_dna(rng, gap) + start
    right = end + clean_dna(rng, gap) + rc(site)
    core = left + target + right
    if any(core.count(s) + (1 if s in core[-5:] + core[:5] else 0) > 1 for s in (site, rc(site))) and site != rc(site):
        return module_core(rng, enzyme, start, end, size)
    return core


def vector_core(rng, enzyme, down, up):
    """down = overhang the chain starts with (group 1), up = where it ends (group 3)."""
    site, gap = ENZYMES[enzyme][:2]
    placeholder = clean_dna(rng, rng.randint(0, 20))
    core = (
        rng.choice("ACGT")
        + down
        + clean_dna(rng, gap)
        + rc(site)
        + placeholder
        + site
        + clean_dna(rng, gap)
        + up
        + rng.choice("ACGT")
    )
    if core.count(site) > 1 or core.count(rc(site)) > 1:
        return vector_core(rng, enzyme, down, up)
    return core


# --- observation -------------------------------------------------------------


def ref_state(ref):
    if isinstance(ref, Reference):
        return (
            "Reference",
            ref.title,
            ref.authors,
            ref.journal,
            ref.pubmed_id,
            ref.medline_id,
            ref.consrtm,
            ref.comment,
            repr(ref.location),
        )
    return ("other", repr(ref))


def qual_state(value):
    if isinstance(value, list):
        return [ref_state(v) if isinstance(v, Reference) else repr(v) for v in value]
    return repr(value)


def record_state(rec):
    if rec is None:
        return None
    annotations = []
    for key in sorted(rec.annotations):
        value = rec.annotations[key]
        if key == "references":
            annotations.append((key, [ref_state(r) for r in value]))
        else:
            annotations.append((key, repr(value)))
    return (
        type(rec).__name__,
        str(rec.seq),
        rec.id,
        rec.name,
        rec.description,
        list(rec.dbxrefs),
        [
            (
                f.type,
                f.id,
                repr(f.location),
                sorted((k, qual_state(v)) for k, v in f.qualifiers.items()),
            )
            for f in rec.features
        ],
        annotations,
        sorted((k, repr(v)) for k, v in rec.letter_annotations.items()),
    )


def attempt(label, func):
    with warnings.catch_warnings(record=True) as caught:
        warnings.simplefilter("always")
        try:
            result = ("ok", func())
        except Exception as exc:  # noqa
            # (object addresses in messages differ from run to run)
            message = re.sub(r" at 0x[0-9a-f]+", "", str(exc))
            result = ("raised", type(exc).__name__, message)
    log(label, result, [(type(w.message).__name__, str(w.message)) for w in caught])
    return result


def observe_assembly(label, vector, modules, inputs, strict=False, **kwargs):
    def run():
        if strict:
            warnings.simplefilter("error", errors.AssemblyWarning)
        return record_state(vector.assemble(*modules, **kwargs))

    for turn in (1, 2):
        attempt((label, "assemble", turn), run)
        log(label, "inputs after", turn, [record_state(r) for r in inputs])


# --- scenarios ---------------------------------------------------------------

MODES = [
    "ok", "ok", "ok", "ok", "missing", "missing_first", "duplicate", "revcomp",
    "unused", "unused_strict", "bad_vector", "bad_module", "plain_module",
    "plain_vector", "linear_module", "same_twice", "illegal_site", "ok_named",
]
CITES = ["none", "own", "own", "shared", "shared", "dups", "invalid", "range", "empty"]


def scenario(case, rng):
    enzyme = rng.choice(sorted(ENZYMES))
    vcls, mcls = ENZYMES[enzyme][2:]
    mode = rng.choice(MODES)
    cites = rng.choice(CITES)
    n = rng.randint(1, 4)
    ovs = overhangs(rng, n + 3)
    chain = ovs[: n + 1]  # chain[0] .. chain[n]

    shared = [make_reference("shared", i) for i in range(2)]

    def refs_for(tag):
        if cites == "none":
            return None if rng.random() < 0.5 else []
        own = [make_reference(tag, i) for i in range(rng.randint(1, 3))]
        if cites == "shared":
            pool = own + shared
            rng.shuffle(pool)
            return pool
        if cites == "dups":
            return own + [make_reference(tag, 0)]
        return own

    def cite_mode_for(position):
        # the malformed citation goes to one record only
        if cites in ("invalid", "range", "empty"):
            return cites if position == bad_position else "own"
        return "none" if cites == "none" else "own"

    bad_position = rng.randrange(n + 1)

    records = []
    modules = []
    for i in range(n):
        kind = "circular"
        if mode == "plain_module" and i == n - 1:
            kind = "plain"
        if mode == "linear_module" and i == 0:
            kind = "linear"
        tag = "c{}m{}".format(case, i)
        core = module_core(rng, enzyme, chain[i], chain[i + 1])
        if mode == "bad_module" and i == n // 2:
            core = clean_dna(rng, 30)
        if mode == "illegal_site" and i == 0:
            site = ENZYMES[enzyme][0]
            core = module_core(rng, enzyme, chain[i], chain[i + 1], size=6)
            core = core[: len(site) + 8] + site + "A" + core[len(site) + 8 :]
        rec = build_record(rng, core, tag, refs_for(tag), cite_mode_for(i), kind)
        records.append(rec)
        modules.append(mcls(rec))

    down, up = chain[0], chain[n]
    if mode == "bad_vector":
        up = down
    vcore = vector_core(rng, enzyme, down, up)
    vrec = build_record(
        rng, vcore, "c{}v".format(case), refs_for("c{}v".format(case)), cite_mode_for(n),
        "plain" if mode == "plain_vector" else "circular",
    )
    vector = vcls(vrec)
    records.append(vrec)

    given = list(modules)
    if mode == "missing" and n > 1:
        del given[rng.randrange(1, n)]
    elif mode == "missing" or mode == "missing_first":
        del given[0]
        if not given:
            extra = build_record(rng, module_core(rng, enzyme, ovs[n + 1], ovs[n + 2]), "c{}x".format(case), refs_for("x"), cite_mode_for(0), "circular")
            records.append(extra)
            given.append(mcls(extra))
    elif mode == "duplicate":
        extra = build_record(rng, module_core(rng, enzyme, chain[rng.randrange(n)], ovs[n + 1]), "c{}x".format(case), refs_for("x"), cite_mode_for(0), "circular")
        records.append(extra)
        given.insert(rng.randrange(len(given) + 1), mcls(extra))
    elif mode == "revcomp":
        extra = build_record(rng, module_core(rng, enzyme, rc(chain[rng.randrange(n)]), ovs[n + 1]), "c{}x".format(case), refs_for("x"), cite_mode_for(0), "circular")
        records.append(extra)
        given.append(mcls(extra))
    elif mode in ("unused", "unused_strict"):
        extra = build_record(rng, module_core(rng, enzyme, ovs[n + 1], ovs[n + 2]), "c{}x".format(case), refs_for("x"), cite_mode_for(0), "circular")
        records.append(extra)
        given.insert(rng.randrange(len(given) + 1), mcls(extra))
    elif mode == "same_twice":
        given.append(given[0])
    rng.shuffle(given)

    label = (case, enzyme, mode, cites, n)
    log(label, "inputs before", [record_state(r) for r in records])
    for i, mod in enumerate(modules):
        attempt((label, "valid", i), mod.is_valid)
        attempt((label, "start", i), lambda: str(mod.overhang_start()))
        attempt((label, "end", i), lambda: str(mod.overhang_end()))
        attempt((label, "target", i), lambda: record_state(mod.target_sequence()))
    attempt((label, "vvalid"), vector.is_valid)
    attempt((label, "vstart"), lambda: str(vector.overhang_start()))
    attempt((label, "vend"), lambda: str(vector.overhang_end()))
    attempt((label, "vtarget"), lambda: record_state(vector.target_sequence()))
    attempt((label, "vplaceholder"), lambda: record_state(vector.placeholder_sequence()))
    log(label, "inputs after accessors", [record_state(r) for r in records])

    kwargs = {"id": "asm{}".format(case), "name": "n{}".format(case)} if mode == "ok_named" else {}
    observe_assembly(label, vector, given, records, strict=(mode == "unused_strict"), **kwargs)

    if mode in ("missing", "missing_first", "bad_module") and cites in ("own", "shared", "none"):
        # retry with the complete / corrected set on the same objects
        fixed = list(modules)
        if mode == "bad_module":
            i = n // 2
            rec = build_record(rng, module_core(rng, enzyme, chain[i], chain[i + 1]), "c{}fix".format(case), refs_for("fix"), "own" if cites != "none" else "none", "circular")
            records.append(rec)
            fixed[i] = mcls(rec)
        observe_assembly(label + ("retry",), vector, fixed, records)


def record_operations(case, rng):
    core = clean_dna(rng, rng.randint(12, 40))
    refs = [make_reference("r", i) for i in range(2)]
    rec = build_record(rng, core, "r{}".format(case), refs, "own", "circular", rotate=False)
    n = len(rec)
    before = record_state(rec)
    label = ("rec", case)
    for k in (0, 1, -1, n, n + 3, -n - 2, rng.randrange(-3 * n, 3 * n)):
        attempt(label + (">>", k), lambda: record_state(rec >> k))
        attempt(label + ("<<", k), lambda: record_state(rec << k))
    for _ in range(4):
        a, b = rng.randrange(-n, n), rng.randrange(-n, n + 5)
        attempt(label + ("slice", a, b), lambda: record_state(rec[a:b]))
        attempt(label + ("slice after shift", a, b), lambda: record_state((rec << a)[: abs(b)]))
    attempt(label + ("item",), lambda: rec[rng.randrange(n)])
    attempt(label + ("step",), lambda: record_state(rec[::2]))
    attempt(label + ("rc",), lambda: record_state(rec.reverse_complement()))
    probe = str(rec.seq)[-3:] + str(rec.seq)[:3]
    attempt(label + ("in",), lambda: (probe in rec, probe.lower() in rec, "A" * (n + 1) in rec))
    attempt(label + ("add",), lambda: rec + rec)
    attempt(label + ("radd",), lambda: "A" + rec)
    attempt(label + ("copy",), lambda: record_state(CircularRecord(rec)))
    # slices must be detached from the record they were taken from
    def touch_slice():
        piece = rec[1 : n - 1]
        for f in piece.features:
            f.qualifiers.setdefault("label", []).append("touched")
            f.qualifiers.setdefault("citation", []).append("[9]")
        piece.annotations["molecule_type"] = "RNA"
        piece.dbxrefs.append("x")
        return len(piece.features)

    attempt(label + ("touch",), touch_slice)
    log(label, "unchanged", record_state(rec) == before)
    lin = SeqRecord(Seq(core), id="lin", annotations={"topology": "linear"})
    attempt(label + ("linear",), lambda: CircularRecord(lin))


def registry_assembly():
    try:
        from moclo.registry.ytk import YTKRegistry

        reg = YTKRegistry()
        names = ["pYTK008", "pYTK047", "pYTK073", "pYTK074", "pYTK086", "pYTK092"]
        mods = [reg[x].entity for x in names]
        vec = reg["pYTK090"].entity
    except Exception as exc:  # noqa
        log("registry", "unavailable", type(exc).__name__)
        return
    records = [m.record for m in mods] + [vec.record]
    # give the registry plasmids citations: every third feature cites the
    # reference list of its record (which gets one extra entry)
    for rec in records:
        refs = rec.annotations.setdefault("references", [])
        refs.append(make_reference(rec.id, len(refs)))
        for k, f in enumerate(rec.features):
            if k % 3 == 0:
                f.qualifiers["citation"] = ["[{}]".format(len(refs))]
    log("registry", "before", [record_state(r) for r in records])
    observe_assembly(("registry",), vec, mods, records)
    observe_assembly(("registry", "missing"), vec, mods[:-1], records)



# --- an enzyme leaving 3' overhangs (hand-written structures) ----------------


class Vector3(AbstractVector):
    cutter = BtsI

    @classmethod
    def structure(cls):
        return "(NN)(CACTGCN*GCAGTG)(NN)"


class Module3(AbstractModule):
    cutter = BtsI

    @classmethod
    def structure(cls):
        return "GCAGTG(NN)(NN*N)(NN)CACTGC"


def three_prime(case, rng):
    chain = ["AC", "AG", "TC", "CA"]
    rng.shuffle(chain)
    n = rng.randint(1, 3)
    cites = rng.choice(["none", "own", "shared"])
    shared = [make_reference("shared3", 0)]
    records, modules = [], []

    def refs_for(tag):
        if cites == "none":
            return None
        own = [make_reference(tag, i) for i in range(rng.randint(1, 2))]
        if cites == "shared":
            own.insert(rng.randrange(len(own) + 1), shared[0])
        return own

    mode = "none" if cites == "none" else "own"
    for i in range(n):
        tag = "t{}m{}".format(case, i)
        core = "GCAGTG" + chain[i] + clean_dna(rng, rng.randint(3, 12)) + chain[i + 1] + "CACTGC"
        rec = build_record(rng, core, tag, refs_for(tag), mode, "circular")
        records.append(rec)
        modules.append(Module3(rec))
    vcore = chain[0] + "CACTGC" + clean_dna(rng, rng.randint(0, 9)) + "GCAGTG" + chain[n]
    vrec = build_record(rng, vcore, "t{}v".format(case), refs_for("t{}v".format(case)), mode, "circular")
    records.append(vrec)
    vector = Vector3(vrec)
    label = ("3prime", case, cites, n)
    log(label, "inputs before", [record_state(r) for r in records])
    for i, mod in enumerate(modules):
        attempt((label, "valid", i), mod.is_valid)
        attempt((label, "target", i), lambda: record_state(mod.target_sequence()))
    attempt((label, "vtarget"), lambda: record_state(vector.target_sequence()))
    attempt((label, "vplaceholder"), lambda: record_state(vector.placeholder_sequence()))
    observe_assembly(label, vector, modules, records)
    if n > 1:
        observe_assembly(label + ("missing",), vector, modules[:-1], records)


# --- how the classes are put together ----------------------------------------


def class_checks(rng):
    rec = CircularRecord(Seq(clean_dna(rng, 40)), id="plain")

    class Blunt(AbstractModule):
        cutter = EcoRV

    class BluntVector(AbstractVector):
        cutter = EcoRV

    class NoSignature(AbstractPart, Entry):
        cutter = BsaI

    class PartModule(AbstractPart, Entry):
        cutter = BsaI
        signature = ("ATGC", "ATTC")

    class PartVector(AbstractPart, CassetteVector):
        cutter = BsaI
        signature = ("ATGC", "ATTC")

    class PartVector2(AbstractPart, CassetteVector):
        cutter = BsaI
        signature = ("ATTC", "ATGC")

    class Sub(PartModule):
        pass

    for cls in (AbstractModule, AbstractVector, Product, Entry, EntryVector, CassetteVector,
                AbstractPart, Blunt, BluntVector, NoSignature, PartModule, PartVector, PartVector2, Sub,
                Module3, Vector3) + tuple(x for e in sorted(ENZYMES) for x in ENZYMES[e][2:]):
        label = ("class", cls.__name__)
        attempt(label + ("new",), lambda: type(cls(rec)).__name__)
        attempt(label + ("structure",), cls.structure)
        attempt(label + ("valid",), lambda: cls(rec).is_valid())
        attempt(label + ("target",), lambda: record_state(cls(rec).target_sequence()))
        attempt(label + ("match",), lambda: cls(rec)._match)
        attempt(label + ("mro",), lambda: [c.__name__ for c in cls.__mro__ if not c.__name__.startswith("_")])
        attempt(label + ("api",), lambda: sorted(n for n in dir(cls) if not n.startswith("_")))
        attempt(label + ("doc",), lambda: (cls.target_sequence.__doc__, cls.__doc__))

    # a part class used as a module and as the vector of an assembly
    part_core = "GGTCTCAATGC" + clean_dna(rng, 9) + "ATTCAGAGACC"
    vec_core = "AATTCTGAGACC" + clean_dna(rng, 5) + "GGTCTCAATGCA"
    refs = [make_reference("part", 0)]
    prec = build_record(rng, part_core, "part", refs, "own", "circular")
    vrec = build_record(rng, vec_core, "pvec", [make_reference("pvec", 0), refs[0]], "own", "circular")
    log("parts before", [record_state(prec), record_state(vrec)])
    attempt(("parts", "characterize"), lambda: type(PartModule.characterize(prec)).__name__)
    attempt(("parts", "vstructure"), PartVector.structure)
    observe_assembly(("parts",), PartVector(vrec), [Sub(prec)], [prec, vrec])
    vec2_core = "AATGCTGAGACC" + clean_dna(rng, 5) + "GGTCTCAATTCA"
    vrec2 = build_record(rng, vec2_core, "pvec2", [make_reference("pvec", 0), refs[0]], "own", "circular")
    log("parts before", record_state(vrec2))
    observe_assembly(("parts", "fits"), PartVector2(vrec2), [Sub(prec)], [prec, vrec2], id="x", name="y")
    observe_assembly(("parts", "no module fits"), PartVector(vrec), [PartModule(vrec)], [prec, vrec])

    # an illegal site is reported on first use, whatever is asked first
    site_core = "GGTCTCAATGC" + "GGTCTCA" + clean_dna(rng, 4) + "ATTCAGAGACC"
    srec = build_record(rng, site_core, "site", None, "none", "circular")
    for asked in ("is_valid", "overhang_start", "overhang_end", "target_sequence"):
        attempt(("illegal", asked), lambda: repr(getattr(PartModule(srec), asked)()))
        attempt(("illegal entry", asked), lambda: repr(getattr(ENZYMES["BsaI"][3](srec), asked)()))


def main():
    rng = random.Random(20070707)
    for case in range(320):
        scenario(case, rng)
    for case in range(40):
        record_operations(case, rng)
    for case in range(30):
        three_prime(case, rng)
    class_checks(rng)
    registry_assembly()

    digest = hashlib.sha256()
    for line in LOG:
        digest.update(line.encode("utf-8"))
        digest.update(b"\n")
    kinds = {}
    for line in LOG:
        if "'assemble'" in line:
            key = "ok" if "('ok'," in line else line.split("'raised', '")[1].split("'")[0]
            kinds[key] = kinds.get(key, 0) + 1
    print("observations:", len(LOG))
    print("assemble outcomes:", sorted(kinds.items()))
    print("digest:", digest.hexdigest())


if __name__ == "__main__":
    main()
