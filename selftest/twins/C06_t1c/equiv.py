# coding: utf-8
"""Differential test for the typing / digestion code of moclo.core.

Run as: cd /tmp/agents9/C06 && /venv/bin/python pairs_out/C06_t1/equiv.py
Prints one digest per section and a global digest; the output must be the same
before and after a behaviour-preserving change.
"""
import sys

sys.path.insert(0, "/tmp/agents9/C06")
import tests  # noqa: F401,E402

import copy  # noqa: E402
import hashlib  # noqa: E402
import inspect  # noqa: E402
import json  # noqa: E402
import random  # noqa: E402
import re  # noqa: E402
import warnings  # noqa: E402

from Bio.Seq import Seq  # noqa: E402
from Bio.SeqFeature import SeqFeature, FeatureLocation  # noqa: E402
from Bio.SeqRecord import SeqRecord  # noqa: E402
from Bio import Restriction  # noqa: E402

from moclo import errors  # noqa: E402
from moclo.record import CircularRecord  # noqa: E402
from moclo.core import (  # noqa: E402
    AbstractModule,
    AbstractPart,
    AbstractVector,
    Entry,
    Product,
    Cassette,
    Device,
    EntryVector,
    CassetteVector,
    DeviceVector,
)
from moclo.core._structured import StructuredRecord  # noqa: E402
from moclo.kits import ytk, cidar, ecoflex, moclo as moclokit, plant  # noqa: E402

RNG = random.Random(60606)
ADDR = re.compile(r" at 0x[0-9a-fA-F]+")
SITES = [
    "GGTCTC", "GAGACC", "CGTCTC", "GAGACG", "GAAGAC", "GTCTTC",
    "GCAGTG", "CACTGC", "GAGGAG", "CTCCTC", "GATATC",
]
IUPAC = {
    "A": "A", "C": "C", "G": "G", "T": "T", "B": "CGT", "D": "AGT", "H": "ACT",
    "K": "GT", "M": "AC", "N": "ACGT", "R": "AG", "S": "CG", "V": "ACG",
    "W": "AT", "Y": "CT",
}

SECTIONS = []
LINES = []


def clean(text):
    return ADDR.sub(" at 0x?", text).replace("/tmp/agents9/C06", "<wt>")


def emit(*fields):
    LINES.append(clean(json.dumps(fields, sort_keys=True, default=repr)))


def section(name):
    if SECTIONS:
        close()
    SECTIONS.append([name, len(LINES)])


def close():
    name, start = SECTIONS[-1]
    h = hashlib.sha256("\n".join(LINES[start:]).encode("utf-8")).hexdigest()
    print("{:<28} {:>6} lines  {}".format(name, len(LINES) - start, h[:24]))


def show(value):
    """Render a result without addresses."""
    if isinstance(value, SeqRecord):
        feats = [
            (f.type, str(f.location), sorted((k, str(v)) for k, v in f.qualifiers.items()))
            for f in value.features
        ]
        return [
            type(value).__name__,
            str(value.seq),
            value.id,
            value.name,
            value.description,
            feats,
            sorted((k, str(v)) for k, v in value.annotations.items()),
        ]
    if isinstance(value, Seq):
        return ["Seq", str(value)]
    if isinstance(value, StructuredRecord):
        return ["entity", type(value).__name__, value.record.id]
    if isinstance(value, (tuple, list)):
        return [show(v) for v in value]
    if isinstance(value, BaseException):
        return show_exc(value)
    return clean(repr(value))


def show_exc(exc):
    return [
        "raised",
        type(exc).__name__,
        clean(str(exc)),
        [show(a) for a in exc.args],
        type(exc.__cause__).__name__,
        type(exc.__context__).__name__,
        exc.__suppress_context__,
    ]


def attempt(func, *args, **kwargs):
    with warnings.catch_warnings(record=True) as caught:
        warnings.simplefilter("always")
        try:
            result = show(func(*args, **kwargs))
        except Exception as exc:  # noqa
            result = show_exc(exc)
    if caught:
        result = [
            result,
            [(w.category.__name__, clean(str(w.message)), show(w.message.args)) for w in caught],
        ]
    return result


# --- sequence generation ------------------------------------------------------


def random_dna(n, alphabet="ACGT"):
    while True:
        s = "".join(RNG.choice(alphabet) for _ in range(n))
        if not any(site in s for site in SITES):
            return s


def from_structure(pattern, insert=None):
    """Write a sequence following a structure pattern."""
    out = []
    i = 0
    pattern = pattern.replace("(", "").replace(")", "")
    while i < len(pattern):
        c = pattern[i]
        if pattern[i + 1 : i + 3] == "*?":
            out.append(random_dna(RNG.randint(4, 30)) if insert is None else insert)
            i += 3
        elif pattern[i + 1 : i + 2] == "*":
            out.append(random_dna(RNG.randint(4, 30)) if insert is None else insert)
            i += 2
        else:
            out.append(RNG.choice(IUPAC[c]))
            i += 1
    return "".join(out)


def mixed_case(s):
    return "".join(c.lower() if RNG.random() < 0.5 else c for c in s)


def annotate(record):
    n = len(record.seq)
    if n > 12:
        a = RNG.randint(0, n - 8)
        record.features.append(
            SeqFeature(FeatureLocation(a, a + 6, 1), type="misc_feature",
                       qualifiers={"label": ["f-" + record.id]})
        )
    return record


def make_records(cls, index):
    """Make the family of records tried against a class."""
    name = "{}-{}".format(cls.__name__, index)
    try:
        pattern = cls.structure()
    except Exception:  # noqa
        pattern = "NNNN"
    core = from_structure(pattern)
    backbone = random_dna(RNG.randint(10, 40))
    full = core + backbone
    recs = []
    # the structure right at the origin
    recs.append(("circular", annotate(CircularRecord(Seq(full), id=name + "-c", name="c"))))
    # the structure wrapping the origin
    k = RNG.randint(1, len(core) - 1)
    wrapped = full[k:] + full[:k]
    recs.append(("wrapped", annotate(CircularRecord(Seq(wrapped), id=name + "-w", name="w"))))
    # mixed letter case
    recs.append(("mixedcase", CircularRecord(Seq(mixed_case(wrapped)), id=name + "-m")))
    # plain SeqRecord: no topology, circular, linear
    recs.append(("plain", SeqRecord(Seq(wrapped), id=name + "-p")))
    lin = SeqRecord(Seq("AT" + full), id=name + "-l", annotations={"topology": "linear"})
    recs.append(("linear", lin))
    linw = SeqRecord(Seq(wrapped), id=name + "-lw", annotations={"topology": "linear"})
    recs.append(("linear-wrapped", linw))
    circ = SeqRecord(Seq(wrapped), id=name + "-pc", annotations={"topology": "Circular"})
    recs.append(("plain-circular", circ))
    # an additional site of the enzyme in the insert
    site = getattr(cls.cutter, "site", "GGTCTC")
    extra = from_structure(pattern, insert=random_dna(5) + site + "A" + random_dna(6))
    recs.append(("extra-site", CircularRecord(Seq(extra + backbone), id=name + "-x")))
    # an additional site of the enzyme in the backbone
    recs.append(("backbone-site", CircularRecord(Seq(full + site + "AC"), id=name + "-b")))
    # a site of another enzyme in the insert
    for other in ("GGTCTC", "CGTCTC", "GAAGAC"):
        if other != site:
            break
    foreign = from_structure(pattern, insert=random_dna(5) + other + "T" + random_dna(6))
    recs.append(("foreign-site", CircularRecord(Seq(foreign + backbone), id=name + "-f")))
    # junk
    recs.append(("junk", CircularRecord(Seq(random_dna(RNG.randint(3, 60))), id=name + "-j")))
    return recs


def snapshot(record):
    return hashlib.sha256(json.dumps(show(record), default=repr).encode()).hexdigest()[:12]


def probe(cls, record, full=True):
    """Everything observable about typing one record with one class."""
    before = snapshot(record)
    out = []
    try:
        entity = cls(record)
    except Exception as exc:  # noqa
        return ["ctor", show_exc(exc)]
    def call(name):
        return attempt(lambda: getattr(entity, name)())

    out.append(call("is_valid"))
    if full:
        out.append(call("overhang_start"))
        out.append(call("overhang_end"))
        out.append(call("target_sequence"))
        if isinstance(entity, AbstractVector):
            out.append(call("placeholder_sequence"))
        # a second round on the same instance (per-instance cached match)
        out.append(call("is_valid"))
        out.append(call("overhang_end"))
        out.append(call("overhang_start"))
    out.append(before == snapshot(record))
    out.append(entity.record is record and entity.seq is record.seq)
    return out


# --- the classes ----------------------------------------------------------------


def kit_classes():
    found = []
    for mod in (ytk, cidar, ecoflex, moclokit, plant):
        for name, obj in sorted(vars(mod).items()):
            if inspect.isclass(obj) and issubclass(obj, StructuredRecord):
                if obj.__module__ == mod.__name__:
                    found.append(obj)
    return found


ALL = kit_classes()
CONCRETE = [
    c for c in ALL
    if c.cutter is not NotImplemented
    and getattr(c, "signature", None) is not NotImplemented
]


def dynamic_classes():
    R = Restriction
    made = []

    class BtsPart(AbstractPart, Entry):
        cutter = R.BtsI
        signature = ("AC", "GT")

    class BseRPart(AbstractPart, Cassette):
        cutter = R.BseRI
        signature = ("TT", "CA")

    class BtsVectorPart(AbstractPart, EntryVector):
        cutter = R.BtsI
        signature = ("AC", "GT")

    class BsaVectorPart(AbstractPart, CassetteVector):
        cutter = R.BsaI
        signature = ("CAAT", "CCCT")

    class ThreeModule(Product):
        cutter = R.BtsI

        @staticmethod
        def structure():
            return "GCAGTG(NN)(NN*N)(NN)CACTGC"

    class ThreeVector(DeviceVector):
        cutter = R.BseRI

        @staticmethod
        def structure():
            return "CTCCTCNNNNNNNN(NN)(NN*N)(NN)NNNNNNNNGAGGAG"

    class SapModule(Entry):
        cutter = R.SapI

    class SapVector(EntryVector):
        cutter = R.SapI

    class BpiDevice(Device):
        cutter = R.BpiI

    class SubPart2(ytk.YTKPart2):
        pass

    class SubPart2Other(ytk.YTKPart2):
        signature = ("AACG", "GGGG")

    class SubEntry(ytk.YTKEntry):
        cutter = R.BsmBI

    class NoCutter(Entry):
        pass

    class Blunt(Entry):
        cutter = R.EcoRV

    class BrokenThree(Entry):
        cutter = R.BtsI

    class NoSignature(AbstractPart, Entry):
        cutter = R.BsaI

    class Neither(AbstractPart):
        cutter = R.BsaI
        signature = ("AAAA", "CCCC")

    made.extend([
        BtsPart, BseRPart, BtsVectorPart, BsaVectorPart, ThreeModule, ThreeVector,
        SapModule, SapVector, BpiDevice, SubPart2, SubPart2Other, SubEntry,
        NoCutter, Blunt, BrokenThree, NoSignature, Neither,
    ])
    return made


DYNAMIC = dynamic_classes()


# --- sections -----------------------------------------------------------------


def run_structures():
    section("structures")
    for cls in ALL + DYNAMIC:
        emit(cls.__name__, attempt(cls.structure), [b.__name__ for b in cls.__mro__])


def run_own_records():
    section("own-records")
    pool = []
    for cls in CONCRETE + DYNAMIC:
        for index in range(2):
            for label, record in make_records(cls, index):
                emit(cls.__name__, label, record.id, probe(cls, record))
                pool.append((cls, label, record))
    return pool


def run_cross(pool):
    section("cross-typing")
    picked = [(c, l, r) for (c, l, r) in pool if l in ("wrapped", "extra-site") and r.id.endswith(("0-w", "0-x"))]
    for cls, label, record in picked:
        verdicts = []
        for other in CONCRETE:
            try:
                verdicts.append(int(other(record).is_valid()))
            except Exception as exc:  # noqa
                verdicts.append(type(exc).__name__)
        emit(cls.__name__, label, verdicts)
    # parents before children and children before parents on the same record
    for cls, label, record in picked[::7]:
        chain = [c for c in cls.__mro__ if c in CONCRETE]
        emit("mro-down", cls.__name__, [probe(c, record) for c in chain])
        emit("mro-up", cls.__name__, [probe(c, record) for c in reversed(chain)])


def run_characterize(pool):
    section("characterize")
    bases = [ytk.YTKPart, cidar.CIDARPart, ecoflex.EcoFlexPart, moclokit.MoCloPart, AbstractPart]
    for cls, label, record in pool:
        if label != "wrapped" or not issubclass(cls, AbstractPart):
            continue
        for base in bases:
            if issubclass(cls, base):
                emit(cls.__name__, base.__name__, attempt(base.characterize, record))


def part_record(cls, up, down, ident, insert=None, cite=None):
    pattern = cls.structure()
    pattern = pattern.replace("(NNNN)", "({})".format(up), 1)
    pattern = pattern.replace("(NNNN)", "({})".format(down), 1)
    seq = from_structure(pattern, insert=insert) + random_dna(RNG.randint(8, 25))
    k = RNG.randint(0, len(seq) - 1)
    seq = seq[k:] + seq[:k]
    record = CircularRecord(Seq(seq), id=ident, name=ident)
    if cite is not None:
        record.annotations["references"] = list(cite)
        record.features.append(
            SeqFeature(FeatureLocation(0, 3, 1), type="misc_feature",
                       qualifiers={"citation": ["[{}]".format(len(cite))], "label": [ident]})
        )
    return record


def run_assemblies():
    section("assemblies")
    combos = [
        (ytk.YTKCassetteVector, ytk.YTKEntry, [ytk.YTKPart2, ytk.YTKPart3, ytk.YTKPart4]),
        (cidar.CIDARCassetteVector, cidar.CIDAREntry, []),
        (moclokit.MoCloSingleCassetteVector, moclokit.MoCloEntry, []),
        (ecoflex.EcoFlexCassetteVector, ecoflex.EcoFlexEntry, []),
        (ytk.YTKDeviceVector, ytk.YTKCassette, []),
        (DYNAMIC[5], DYNAMIC[4], []),
    ]
    ovs = ["AACG", "TATG", "ATCC", "GCTG", "TACA", "CCGA"]
    for vcls, mcls, typed in combos:
        three = vcls.cutter.is_3overhang()
        for round_ in range(4):
            n = RNG.randint(1, 4)
            chain = ovs[: n + 1]
            if three:
                chain = ["AC", "GT", "TT", "CA", "GG"][: n + 1]
            if vcls.structure().count("(NNNN)") >= 2 or three:
                vpat = vcls.structure()
                if three:
                    vpat = vpat.replace("(NN)", "({})".format(chain[0]), 1)
                    vpat = vpat.replace("(NN)", "({})".format(chain[-1]), 1)
                else:
                    vpat = vpat.replace("(NNNN)", "({})".format(chain[0]), 1)
                    vpat = vpat.replace("(NNNN)", "({})".format(chain[-1]), 1)
                vseq = from_structure(vpat) + random_dna(20)
            else:
                vseq = from_structure(vcls.structure()) + random_dna(20)
            vrec = CircularRecord(Seq(vseq), id="vec{}".format(round_), name="vec")
            vrec.annotations["references"] = ["refV"]
            vrec.features.append(SeqFeature(FeatureLocation(0, 2, 1), type="misc_feature",
                                            qualifiers={"citation": ["[1]"]}))
            vector = vcls(vrec)
            mods = []
            for i in range(n):
                if three:
                    pattern = mcls.structure().replace("(NN)", "({})".format(chain[i]), 1)
                    pattern = pattern.replace("(NN)", "({})".format(chain[i + 1]), 1)
                    seq = from_structure(pattern) + random_dna(12)
                    rec = CircularRecord(Seq(seq), id="mod{}".format(i), name="mod")
                else:
                    cite = ["refA", "ref{}".format(i)] if i % 2 == 0 else None
                    rec = part_record(mcls, chain[i], chain[i + 1], "mod{}".format(i), cite=cite)
                mods.append(mcls(rec))
            scenarios = {
                "all": list(mods),
                "shuffled": RNG.sample(mods, len(mods)),
                "missing": mods[:-1],
                "duplicate": mods + [mcls(copy.deepcopy(mods[0].record))],
                "zz-same-twice": mods + mods[:1],
            }
            if not three:
                stray = mcls(part_record(mcls, "GGGG", "CCCC", "stray"))
                scenarios["unused"] = mods + [stray]
                twin = mcls(part_record(mcls, chain[0], chain[1], "twin"))
                scenarios["twin"] = mods + [twin]
            for label, given in sorted(scenarios.items()):
                if not given:
                    emit(vcls.__name__, round_, label, attempt(vector.assemble))
                    continue
                snaps = [snapshot(m.record) for m in given] + [snapshot(vrec)]
                res = attempt(vector.assemble, *given, id="asm", name="asm-" + label)
                after = [snapshot(m.record) for m in given] + [snapshot(vrec)]
                emit(vcls.__name__, round_, label, res, snaps == after)
            # typed parts queried after their generic parent took part in an assembly
            for tcls in typed:
                emit("typed-after", tcls.__name__, [probe(tcls, m.record, full=False) for m in mods])


def run_registries():
    section("registries")
    from moclo.registry.ytk import YTKRegistry, PTKRegistry
    from moclo.registry.cidar import CIDARRegistry
    from moclo.registry.ecoflex import EcoFlexRegistry
    from moclo.registry.plant import PlantRegistry

    for factory in (YTKRegistry, PTKRegistry, CIDARRegistry, EcoFlexRegistry, PlantRegistry):
        registry = factory()
        for key in sorted(registry):
            item = registry[key]
            entity = item.entity
            fresh = type(entity)(copy.deepcopy(entity.record))
            emit(
                factory.__name__, key, item.name, item.resistance, type(entity).__name__,
                attempt(entity.is_valid),
                attempt(entity.overhang_start),
                attempt(entity.overhang_end),
                attempt(lambda: len(entity.target_sequence())),
                attempt(fresh.overhang_start),
                attempt(lambda: str(fresh.target_sequence().seq)[:40]),
            )


def run_histories(pool):
    section("histories")
    sample = [t for t in pool if t[1] in ("wrapped", "extra-site", "foreign-site")]
    for step in range(400):
        cls, label, record = RNG.choice(sample)
        other = RNG.choice(CONCRETE + DYNAMIC[:12])
        emit(step, other.__name__, record.id, probe(other, record, full=RNG.random() < 0.3))


def main():
    run_structures()
    pool = run_own_records()
    run_cross(pool)
    run_characterize(pool)
    run_assemblies()
    run_registries()
    run_histories(pool)
    close()
    digest = hashlib.sha256("\n".join(LINES).encode("utf-8")).hexdigest()
    print("TOTAL {} lines".format(len(LINES)))
    print("DIGEST {}".format(digest))
    if "--dump" in sys.argv:
        with open(sys.argv[sys.argv.index("--dump") + 1], "w") as f:
            f.write("\n".join(LINES))


if __name__ == "__main__":
    main()
