# coding: utf-8
"""Differential test for the code behind property C05.

Prints a digest of everything observable through the existing API: the
structures of every kit class and of user-defined classes over many enzymes,
the verdicts / overhangs / target sequences of a few hundred generated
records (members, siblings, random overhangs, near misses, rotations over the
origin, mixed case, plain SeqRecord, linear topology, illegal sites),
characterisation, assemblies (good and failing, with citations), and the
bundled registries.
"""
import sys

sys.path.insert(0, "/tmp/agents9/C05")
import tests  # noqa: E402,F401

import hashlib  # noqa: E402
import inspect  # noqa: E402
import random  # noqa: E402
import re  # noqa: E402
import warnings  # noqa: E402

from Bio.Seq import Seq  # noqa: E402
from Bio.SeqRecord import SeqRecord  # noqa: E402
from Bio.SeqFeature import SeqFeature, FeatureLocation  # noqa: E402
from Bio import Restriction as R  # noqa: E402

from moclo import core, errors  # noqa: E402
from moclo._utils import isabstract  # noqa: E402
from moclo.core import parts, modules, vectors  # noqa: E402
from moclo.core._structured import StructuredRecord  # noqa: E402
from moclo.record import CircularRecord  # noqa: E402
from moclo.kits import ytk, cidar, ecoflex, moclo as ig, plant  # noqa: E402

LINES = []
_ADDR = re.compile(r" at 0x[0-9a-fA-F]+")


def clean(obj):
    return _ADDR.sub(" at 0x?", obj if isinstance(obj, str) else repr(obj))


def out(*fields):
    LINES.append(" | ".join(clean(f) for f in fields))


def attempt(func, *args, **kwargs):
    """Run func, return a printable description of its outcome."""
    with warnings.catch_warnings(record=True) as caught:
        warnings.simplefilter("always")
        try:
            res = ("ok", describe(func(*args, **kwargs)))
        except BaseException as exc:  # noqa
            res = (
                "raise",
                type(exc).__name__,
                clean(str(exc)),
                clean([describe(a) for a in exc.args]),
                type(exc.__cause__).__name__,
                str(exc.__suppress_context__),
            )
    ws = [(type(w.message).__name__, clean(str(w.message))) for w in caught]
    return res + (("warnings", ws) if ws else ())


def describe(value):
    if isinstance(value, StructuredRecord):
        return "<{} of {}>".format(type(value).__name__, value.record.id)
    if isinstance(value, SeqRecord):
        feats = [
            (f.type, str(f.location), sorted((k, str(v)) for k, v in f.qualifiers.items()))
            for f in value.features
        ]
        return (
            type(value).__name__,
            str(value.seq),
            value.id,
            value.name,
            feats,
            sorted((k, str(v)) for k, v in value.annotations.items()),
        )
    if isinstance(value, Seq):
        return ("Seq", str(value))
    if isinstance(value, (tuple, list)):
        return type(value)(describe(v) for v in value)
    return value


# --- 1. structures of every class of every kit ------------------------------

KITS = [ytk, cidar, ecoflex, ig, plant]
KIT_CLASSES = []
for kit in KITS:
    for name, obj in sorted(vars(kit).items()):
        if inspect.isclass(obj) and issubclass(obj, StructuredRecord):
            if obj.__module__ == kit.__name__:
                KIT_CLASSES.append(obj)

for cls in KIT_CLASSES:
    out(
        "kit-class",
        cls.__module__,
        cls.__name__,
        [b.__name__ for b in cls.__mro__],
        isabstract(cls),
        attempt(cls.structure),
        getattr(cls, "signature", None),
        getattr(cls, "cutter", None),
        cls._level if hasattr(cls, "_level") else None,
    )

for name in core.__all__:
    obj = getattr(core, name)
    out("core", name, obj.__module__, isabstract(obj), [b.__name__ for b in obj.__mro__])
    if obj.cutter is NotImplemented:
        out("core-new", name, attempt(obj, SeqRecord(Seq("ATGC"), id="x")))
        out("core-structure", name, attempt(obj.structure))
for mod, names in [
    (parts, ["AbstractPart", "AbstractModule", "AbstractVector", "StructuredRecord",
             "cutter_check", "isabstract", "Seq"]),
    (modules, ["AbstractModule", "Product", "Entry", "Cassette", "Device",
               "StructuredRecord", "cutter_check", "add_as_source", "Seq", "errors",
               "cached_property"]),
    (vectors, ["AbstractVector", "EntryVector", "CassetteVector", "DeviceVector",
               "AssemblyManager", "StructuredRecord", "cutter_check", "add_as_source",
               "Seq", "errors", "cached_property"]),
]:
    for n in names:
        out("importable", mod.__name__, n, hasattr(mod, n))

# --- 2. user-defined classes over many enzymes / roles / signatures ---------

UNKNOWN = sorted((e for e in R.AllEnzymes if e.is_unknown()), key=str)[0]
ENZYMES = [
    R.BsaI, R.BsmBI, R.BpiI, R.BbsI, R.SapI, R.BtgZI, R.Esp3I, R.BspMI, R.FokI,
    R.BtsI, R.BseRI, R.BsrDI, R.BsgI,  # 3' overhangs
    R.EcoRI, R.BssSI, R.PstI, R.EcoRV, R.SmaI, UNKNOWN, NotImplemented,
]
ROLES = [
    ("entry", (core.Entry,)),
    ("product", (core.Product,)),
    ("cassette", (core.Cassette,)),
    ("device", (core.Device,)),
    ("entryvector", (core.EntryVector,)),
    ("cassettevector", (core.CassetteVector,)),
    ("devicevector", (core.DeviceVector,)),
    ("neither", ()),
    ("both-mv", (core.Entry, core.EntryVector)),
    ("both-vm", (core.EntryVector, core.Entry)),
]
SIGNATURES = [
    ("ATGC", "ATTC"),
    ("NNNN", "GGGA"),
    ("GGGA", "NNNN"),
    ("NNNN", "NNNN"),
    ("RYNN", "WSKM"),
    ("atgc", "aTTc"),
    ("AT", "GC"),
    ("ATG", "CCA"),
    (Seq("ATGC"), Seq("ATTC")),
    ["ATGC", "ATTC"],
    ("ATGC",),
    ("ATGC", "ATTC", "GGGG"),
    "ATGCATTC",
    "AT",
    5,
    None,
    NotImplemented,
]


def make_generic(cutter, bases, tag):
    return type(str("G_{}".format(tag)), bases, {"cutter": cutter})


def make_part(cutter, bases, signature, tag):
    ns = {"cutter": cutter, "signature": signature}
    return type(str("P_{}".format(tag)), (core.AbstractPart,) + bases, ns)


n = 0
for enzyme in ENZYMES:
    for rolename, bases in ROLES:
        if bases and len(bases) == 1:
            gen = make_generic(enzyme, bases, "{}_{}".format(enzyme, rolename))
            out("generic-structure", str(enzyme), rolename, attempt(gen.structure))
            out("generic-regex", str(enzyme), rolename,
                attempt(lambda: gen._get_regex().pattern))
        for signature in SIGNATURES:
            n += 1
            try:
                cls = make_part(enzyme, bases, signature, n)
            except TypeError as exc:  # inconsistent MRO
                out("part-class", str(enzyme), rolename, repr(signature), "TypeError", str(exc))
                continue
            out("part-structure", str(enzyme), rolename, repr(signature),
                attempt(cls.structure), isabstract(cls))
            out("part-regex", str(enzyme), rolename, repr(signature),
                attempt(lambda: cls._get_regex().pattern))
            out("part-new", str(enzyme), rolename, repr(signature),
                attempt(lambda: type(cls(SeqRecord(Seq("ATGC"), id="x"))).__name__))

# --- 3. generated records ---------------------------------------------------

rng = random.Random(20240905)
IUPAC = {
    "A": "A", "C": "C", "G": "G", "T": "T", "N": "ACGT", "R": "AG", "Y": "CT",
    "W": "AT", "S": "CG", "K": "GT", "M": "AC", "B": "CGT", "D": "AGT", "H": "ACT",
    "V": "ACG",
}


def rc(text):
    return str(Seq(text).reverse_complement())


def rand_dna(length, cutters=()):
    while True:
        s = "".join(rng.choice("ACGT") for _ in range(length))
        if not any(c.search(Seq(s + s)) for c in cutters):
            return s


def concretise(sig):
    return "".join(rng.choice(IUPAC[c]) for c in str(sig).upper())


def forward_site(cutter, overhang):
    """The site of the enzyme followed by the given overhang, as plain DNA."""
    text = cutter.elucidate()
    a, b = sorted((text.index("^"), text.index("_")))
    before, after = text[:a], text[b + 1:]
    fill = lambda t: "".join(rng.choice("ACGT") if c == "N" else c for c in t)  # noqa
    return fill(before) + overhang + fill(after)


def module_dna(cutter, up, down, insert):
    return forward_site(cutter, up) + insert + rc(forward_site(cutter, rc(down)))


def vector_dna(cutter, up, down, placeholder):
    return rc(forward_site(cutter, rc(down))) + placeholder + forward_site(cutter, up)


def near_miss(text):
    i = rng.randrange(len(text))
    return text[:i] + rng.choice([c for c in "ACGT" if c != text[i]]) + text[i + 1:]


def mixed_case(text):
    return "".join(c.lower() if rng.random() < 0.5 else c for c in text)


def observe(tag, cls, record):
    before = describe(record)
    entity = cls(record)
    fields = [tag, cls.__name__, record.id, type(record).__name__]
    fields.append(attempt(entity.is_valid))
    fields.append(attempt(entity.overhang_start))
    fields.append(attempt(entity.overhang_end))
    fields.append(attempt(entity.target_sequence))
    if isinstance(entity, core.AbstractVector):
        fields.append(attempt(entity.placeholder_sequence))
    fields.append(attempt(lambda: entity._match.span(0)))
    fields.append(before == describe(record))
    out(*fields)
    return fields[4]


FAMILIES = []  # (generic class, [part classes], is_vector, cutter)


def declare_family(tag, cutter, generic_base, signatures):
    generic = type(str("{}Generic".format(tag)), (generic_base,), {"cutter": cutter})
    base = type(str("{}Part".format(tag)), (core.AbstractPart,),
                {"cutter": cutter, "signature": NotImplemented})
    members = [
        type(str("{}Part{}".format(tag, i)), (base, generic), {"signature": sig})
        for i, sig in enumerate(signatures)
    ]
    FAMILIES.append((tag, generic, base, members, issubclass(generic, core.AbstractVector), cutter))
    return generic, base, members


declare_family("UBsaE", R.BsaI, core.Entry,
               [("CCCT", "AACG"), ("AACG", "TATG"), ("NNNN", "TACT"), ("AGGT", "NNNN"),
                ("RYAA", "GGWS"), ("NNNN", "NNNN")])
declare_family("UBsaV", R.BsaI, core.CassetteVector,
               [("CCCT", "AACG"), ("TACA", "CCCT"), ("GGGA", "NNNN"), ("NNNN", "GGGA")])
declare_family("UBpiC", R.BpiI, core.Cassette, [("TGCC", "GCAA"), ("NNNN", "GGGA"), ("ACTA", "TTAC")])
declare_family("UBpiV", R.BpiI, core.DeviceVector, [("GGGA", "NNNN"), ("TGCC", "ACTA")])
declare_family("UBsmBP", R.BsmBI, core.Product, [("CTAT", "GTAC"), ("GTAC", "CATA")])
declare_family("USapE", R.SapI, core.Entry, [("ATG", "GGT"), ("NNN", "TAA"), ("GGT", "NNN")])
declare_family("USapV", R.SapI, core.EntryVector, [("ATG", "TAA"), ("NNN", "NNN")])
declare_family("UBtgV", R.BtgZI, core.EntryVector, [("ACGT", "TTGA")])
declare_family("UBtsE", R.BtsI, core.Entry, [("AT", "GC"), ("NN", "CC")])  # 3' overhang
declare_family("UBtsV", R.BtsI, core.EntryVector, [("AT", "GC")])  # 3' overhang
declare_family("UBseRE", R.BseRI, core.Entry, [("AT", "GC")])  # 3' overhang

KIT_FAMILIES = [
    ("YTKe", ytk.YTKEntry, ytk.YTKPart,
     [c for c in ytk.YTKPart.__subclasses__() if issubclass(c, ytk.YTKEntry)], False, R.BsaI),
    ("YTKv", ytk.YTKCassetteVector, ytk.YTKPart,
     [c for c in ytk.YTKPart.__subclasses__() if issubclass(c, ytk.YTKCassetteVector)], True, R.BsaI),
    ("CIDAR", cidar.CIDAREntry, cidar.CIDARPart, list(cidar.CIDARPart.__subclasses__()), False, R.BsaI),
    ("EcoFlex", ecoflex.EcoFlexEntry, ecoflex.EcoFlexPart,
     list(ecoflex.EcoFlexPart.__subclasses__()), False, R.BsaI),
    ("IGe", ig.MoCloEntry, ig.MoCloPart,
     [c for c in ig.MoCloPart.__subclasses__() if issubclass(c, ig.MoCloEntry)], False, R.BsaI),
    ("IGc", ig.MoCloCassette, ig.MoCloPart,
     [c for c in ig.MoCloPart.__subclasses__() if issubclass(c, ig.MoCloCassette)], False, R.BpiI),
    ("IGdv", ig.MoCloDeviceVector, ig.MoCloPart, [ig.MoCloLevelMVector], True, R.BpiI),
]

count = 0
for tag, generic, base, members, is_vector, cutter in FAMILIES + KIT_FAMILIES:
    build = vector_dna if is_vector else module_dna
    others = [R.BsaI, R.BpiI, R.BsmBI, R.SapI, R.BtsI, R.BseRI, R.BtgZI]
    for member in members:
        if member is ytk.YTKPart234r:
            continue
        upsig, downsig = member.signature
        up, down = concretise(upsig), concretise(downsig)
        variants = [
            ("member", up, down),
            ("random", rand_dna(len(up)), rand_dna(len(down))),
            ("miss-up", near_miss(up), down),
            ("miss-down", up, near_miss(down)),
            ("swapped", down, up),
        ]
        sibling = members[(members.index(member) + 1) % len(members)]
        if sibling is not member and sibling is not ytk.YTKPart234r:
            variants.append(
                ("sibling", concretise(sibling.signature[0]), concretise(sibling.signature[1]))
            )
        for vname, u, d in variants:
            insert = rand_dna(rng.randrange(8, 40), others)
            backbone = rand_dna(rng.randrange(20, 60), others)
            dna = build(cutter, u, d, insert) + backbone
            shapes = [("circ", CircularRecord(Seq(dna), id="{}-{}".format(member.__name__, vname)))]
            if vname in ("member", "miss-up"):
                k = rng.randrange(1, len(dna))
                shapes.append(("rot", CircularRecord(Seq(dna[k:] + dna[:k]), id="rot{}".format(k))))
                k = len(forward_site(cutter, u)) // 2  # origin inside the first site
                shapes.append(("wrap", SeqRecord(Seq(dna[k:] + dna[:k]), id="plainwrap")))
                shapes.append(("plain", SeqRecord(Seq(dna), id="plain")))
                shapes.append(("case", CircularRecord(Seq(mixed_case(dna)), id="case")))
                lin = SeqRecord(Seq(dna[k:] + dna[:k]), id="linear",
                                annotations={"topology": "linear"})
                shapes.append(("linear", lin))
                lin2 = SeqRecord(Seq(dna), id="LINEAR", annotations={"topology": "LINEAR"})
                shapes.append(("linear2", lin2))
                shapes.append(("revcomp", CircularRecord(Seq(rc(dna)), id="revcomp")))
            if vname == "member":
                bad = build(cutter, u, d, insert[:4] + forward_site(cutter, rand_dna(len(u))) + insert[4:])
                shapes.append(("illegal", CircularRecord(Seq(bad + backbone), id="illegal")))
            for sname, record in shapes:
                count += 1
                record.features.append(
                    SeqFeature(FeatureLocation(2, min(30, len(record))), type="misc_feature",
                               qualifiers={"label": ["f"]})
                )
                a = observe("{}/{}/{}/part".format(tag, vname, sname), member, record)
                b = observe("{}/{}/{}/generic".format(tag, vname, sname), generic, record)
                out("characterize", tag, vname, sname, attempt(base.characterize, record),
                    attempt(member.characterize, record))
out("generated records", count)

# nested families, concrete bases, late subclasses
Gen = FAMILIES[0][1]
Base = FAMILIES[0][2]
Concrete = FAMILIES[0][3][0]
rec_a = CircularRecord(Seq(module_dna(R.BsaI, "CCCT", "AACG", rand_dna(20, [R.BsaI])) + rand_dna(30, [R.BsaI])), id="a")
rec_b = CircularRecord(Seq(module_dna(R.BsaI, "TTTT", "GGGG", rand_dna(20, [R.BsaI])) + rand_dna(30, [R.BsaI])), id="b")
rec_c = CircularRecord(Seq(module_dna(R.BsaI, "TTTA", "GGGG", rand_dna(20, [R.BsaI])) + rand_dna(30, [R.BsaI])), id="c")
out("late/before", attempt(Concrete.characterize, rec_a), attempt(Concrete.characterize, rec_b))
Late = type(str("LatePart"), (Concrete,), {"signature": ("TTTT", "GGGG")})
Nested = type(str("NestedPart"), (Late,), {"signature": ("TTTA", "GGGG")})
for r in (rec_a, rec_b, rec_c):
    out("late/after", r.id, attempt(Concrete.characterize, r), attempt(Late.characterize, r),
        attempt(Nested.characterize, r), attempt(Base.characterize, r))
for kitbase in (core.AbstractPart, ytk.YTKPart, cidar.CIDARPart, ecoflex.EcoFlexPart, ig.MoCloPart,
                ytk.YTKPart1, ytk.YTKPart8, ig.MoCloLevelMVector):
    for r in (rec_a, rec_b):
        out("kit-characterize", kitbase.__name__, r.id, attempt(kitbase.characterize, r))
out("characterize/bad", attempt(Base.characterize, None), attempt(Base.characterize, "ATGC"),
    attempt(Base.characterize, Seq("ATGC")))

# --- 4. assemblies ----------------------------------------------------------


def cited(record, label):
    record.annotations["references"] = ["ref-{}".format(label)]
    record.features.append(
        SeqFeature(FeatureLocation(0, len(record)), type="misc_feature",
                   qualifiers={"citation": ["[1]"], "label": [label]})
    )
    return record


def snapshot(entities):
    return [describe(e.record) for e in entities]


for tag, cutter, mod_base, vec_base, ovs in [
    ("bsa", R.BsaI, core.Entry, core.CassetteVector, ["CCCT", "AACG", "TATG", "ATCC", "GCTG"]),
    ("bpi", R.BpiI, core.Cassette, core.DeviceVector, ["TGCC", "GCAA", "ACTA", "TTAC", "CAGA"]),
    ("sap", R.SapI, core.Entry, core.EntryVector, ["ATG", "GGT", "TAA", "CCA", "GAC"]),
]:
    ModG = type(str("{}Mod".format(tag)), (mod_base,), {"cutter": cutter})
    VecG = type(str("{}Vec".format(tag)), (vec_base,), {"cutter": cutter})
    PartBase = type(str("{}PartBase".format(tag)), (core.AbstractPart,),
                    {"cutter": cutter, "signature": NotImplemented})
    ModP = [type(str("{}ModP{}".format(tag, i)), (PartBase, ModG), {"signature": (ovs[i], ovs[i + 1])})
            for i in range(3)]
    VecP = type(str("{}VecP".format(tag)), (PartBase, VecG), {"signature": (ovs[3], ovs[0])})

    def mk_mod(i, j, label, wrap=False, lower=False, plain=False):
        dna = module_dna(cutter, ovs[i], ovs[j], rand_dna(25, [cutter])) + rand_dna(30, [cutter])
        if wrap:
            dna = dna[5:] + dna[:5]
        if lower:
            dna = mixed_case(dna)
        rec = (SeqRecord if plain else CircularRecord)(Seq(dna), id=label, name=label)
        return cited(rec, label)

    def mk_vec(i, j, label):
        dna = vector_dna(cutter, ovs[i], ovs[j], rand_dna(25, [cutter])) + rand_dna(40, [cutter])
        return cited(CircularRecord(Seq(dna), id=label, name=label), label)

    cases = [
        ("good", (3, 0), [(0, 1), (1, 2), (2, 3)]),
        ("good-wrap-case", (3, 0), [(0, 1), (1, 2), (2, 3)]),
        ("good-plain", (3, 0), [(0, 1), (1, 2), (2, 3)]),
        ("missing", (3, 0), [(0, 1), (2, 3)]),
        ("duplicate", (3, 0), [(0, 1), (0, 2), (2, 3)]),
        ("unused", (3, 0), [(0, 3), (1, 2)]),
        ("bad-vector", (0, 0), [(0, 1)]),
        ("single", (1, 0), [(0, 1)]),
    ]
    for cname, (vi, vj), mods in cases:
        for typed in (False, True):
            vec_rec = mk_vec(vi, vj, "vec")
            mod_recs = [
                mk_mod(i, j, "m{}{}".format(i, j), wrap="wrap" in cname, lower="case" in cname,
                       plain=(k == 1 and "plain" in cname))
                for k, (i, j) in enumerate(mods)
            ]
            if typed:
                vector = (VecP if (vi, vj) == (3, 0) else VecG)(vec_rec)
                ents = []
                for (i, j), r in zip(mods, mod_recs):
                    ents.append((ModP[i] if j == i + 1 and i < 3 else ModG)(r))
            else:
                vector = VecG(vec_rec)
                ents = [ModG(r) for r in mod_recs]
            rng.shuffle(ents)
            res = attempt(vector.assemble, *ents, id="asm", name="asm")
            out("assembly", tag, cname, typed, [type(e).__name__ for e in ents], res,
                snapshot([vector] + ents))

# --- 5. registries ----------------------------------------------------------

from moclo.registry.ytk import YTKRegistry, PTKRegistry  # noqa: E402
from moclo.registry.cidar import CIDARRegistry  # noqa: E402
from moclo.registry.ecoflex import EcoFlexRegistry  # noqa: E402
from moclo.registry.plant import PlantRegistry  # noqa: E402

ALL_PARTS = [c for c in KIT_CLASSES if not isabstract(c)]
for registry_cls in (YTKRegistry, PTKRegistry, CIDARRegistry, EcoFlexRegistry, PlantRegistry):
    registry = registry_cls()
    for index, key in enumerate(sorted(registry)):
        item = registry[key]
        entity = item.entity
        out("registry", registry_cls.__name__, key, item.name, item.resistance,
            type(entity).__name__, attempt(entity.is_valid), attempt(entity.overhang_start),
            attempt(entity.overhang_end))
        if index % 9 == 0:
            verdicts = [(c.__name__, attempt(c(item.record).is_valid)) for c in ALL_PARTS]
            out("registry-cross", key, verdicts)
            k = rng.randrange(1, len(item.record))
            rotated = item.record >> k
            out("registry-rot", key, k, attempt(type(entity)(rotated).is_valid),
                attempt(type(entity)(rotated).overhang_start),
                attempt(lambda: str(type(entity)(rotated).target_sequence().seq)))
            for base in (ytk.YTKPart, cidar.CIDARPart, ecoflex.EcoFlexPart, ig.MoCloPart):
                out("registry-characterize", key, base.__name__, attempt(base.characterize, rotated))

# --- digest -----------------------------------------------------------------

digest = hashlib.sha256("\n".join(LINES).encode("utf-8")).hexdigest()
if len(sys.argv) > 1:
    with open(sys.argv[1], "w") as handle:
        handle.write("\n".join(LINES) + "\n")
print("lines:", len(LINES))
print("digest:", digest)
