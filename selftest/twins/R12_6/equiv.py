# coding: utf-8
"""Differential test: prints a digest of the observable behaviour of the
public API of the moclo kits / core parts / _utils.  The digest must be the
same on the pristine tree and with the refactoring applied.

FOCUS: S6 - the identical structure() of CIDAREntryVector and CIDARDeviceVector delivered by a private mixin placed first in their bases
"""
import sys

sys.path.insert(0, "/tmp/agentsR3/R12")
import tests  # noqa: E402,F401  (splices the kit packages in the namespace)

import abc  # noqa: E402
import functools  # noqa: E402
import hashlib  # noqa: E402
import inspect  # noqa: E402
import random  # noqa: E402
import warnings  # noqa: E402

import six  # noqa: E402
from Bio import BiopythonWarning  # noqa: E402
from Bio.Restriction import (  # noqa: E402
    BsaI, BsmBI, BbsI, BpiI, SapI, BtsI, BsrDI, EcoRV, MlyI, EcoRI,
)
from Bio.Seq import Seq  # noqa: E402
from Bio.SeqFeature import SeqFeature, FeatureLocation  # noqa: E402
from Bio.SeqRecord import SeqRecord  # noqa: E402

from moclo import errors  # noqa: E402
from moclo import _utils as mutils  # noqa: E402
from moclo.core import modules, parts, vectors  # noqa: E402
from moclo.kits import cidar, ecoflex, moclo as kmoclo, plant, ytk  # noqa: E402
from moclo.record import CircularRecord  # noqa: E402

RNG = random.Random(20260927)
RESULTS = []

IUPAC = {
    "A": "A", "C": "C", "G": "G", "T": "T",
    "B": "CGT", "D": "AGT", "H": "ACT", "K": "GT", "M": "AC", "N": "ACGT",
    "R": "AG", "S": "CG", "V": "ACG", "W": "AT", "Y": "CT",
}

# fillers avoid G/C rich enzyme sites most of the time, but not always
SAFE = "AT"


def log(*item):
    RESULTS.append(repr(item))


def outcome(func, *args, **kwargs):
    """Run a callable; describe result or exception (type + message) and the
    warnings that were emitted."""
    with warnings.catch_warnings(record=True) as caught:
        warnings.simplefilter("always")
        try:
            res = ("ok", describe(func(*args, **kwargs)))
        except BaseException as exc:  # noqa
            res = ("exc", type(exc).__name__, str(exc))
    warns = [(type(w.message).__name__, str(w.message)) for w in caught]
    return res + (("warns", warns),)


def describe(obj):
    if isinstance(obj, SeqRecord):
        return (
            type(obj).__name__,
            str(obj.seq),
            obj.id,
            obj.name,
            obj.description,
            sorted((k, repr(v)) for k, v in obj.annotations.items()),
            [
                (f.type, repr(f.location), sorted((k, repr(v)) for k, v in f.qualifiers.items()))
                for f in obj.features
            ],
        )
    if isinstance(obj, Seq):
        return ("Seq", str(obj))
    if isinstance(obj, parts.StructuredRecord):
        return (type(obj).__name__, describe(obj.record))
    if isinstance(obj, (list, tuple)):
        return [describe(x) for x in obj]
    return repr(obj)


# --- sequence generation ----------------------------------------------------


def instantiate(pattern, filler=None, alphabet="ACGT", force=None):
    """Make a DNA string that follows a moclo structure pattern.

    ``force`` maps the index of a capture group to the sequence to use for it.
    """
    out = []
    i = 0
    group = 0
    force = force or {}
    while i < len(pattern):
        c = pattern[i]
        if c == "(":
            group += 1
            i += 1
            if group in force:
                out.append(force[group])
                i = pattern.index(")", i) + 1
            continue
        if c == ")":
            i += 1
            continue
        if i + 1 < len(pattern) and pattern[i + 1] == "*":
            n = RNG.randint(0, 40) if filler is None else filler
            out.append("".join(RNG.choice(SAFE) for _ in range(n)))
            i += 2
            if i < len(pattern) and pattern[i] == "?":
                i += 1
            continue
        choices = IUPAC[c]
        if c == "N":
            choices = alphabet
        out.append(RNG.choice(choices))
        i += 1
    return "".join(out)


def overhang_chain(n):
    """n distinct, non palindromic, non mutually complementary 4-mers."""
    res = []
    while len(res) < n:
        o = "".join(RNG.choice("ACGT") for _ in range(4))
        rc = str(Seq(o).reverse_complement())
        if o == rc or o in res or rc in res:
            continue
        res.append(o)
    return res


def mixcase(s, mode):
    if mode == 0:
        return s
    if mode == 1:
        return s.lower()
    return "".join(ch.lower() if RNG.random() < 0.5 else ch for ch in s)


def backbone(n):
    return "".join(RNG.choice(SAFE) for _ in range(n))


def make_record(core, ident, rot=0, case=0, circular=True, topology=None, feats=False):
    seq = core + backbone(RNG.randint(0, 60))
    seq = mixcase(seq, case)
    if len(seq):
        r = rot % len(seq)
        seq = seq[r:] + seq[:r]
    cls = CircularRecord if circular else SeqRecord
    rec = cls(Seq(seq), id=ident, name=ident, description="generated " + ident)
    rec.annotations["molecule_type"] = "DNA"
    if topology is not None:
        rec.annotations["topology"] = topology
    if feats and len(seq) > 12:
        a = RNG.randint(0, len(seq) - 6)
        b = RNG.randint(a + 1, min(len(seq), a + 30))
        rec.annotations["references"] = ["ref-A-" + ident, "ref-B-" + ident]
        rec.features.append(
            SeqFeature(
                FeatureLocation(a, b, strand=1),
                type="misc_feature",
                qualifiers={"label": ["f-" + ident], "citation": ["[1]", "[2]"]},
            )
        )
        rec.features.append(
            SeqFeature(
                FeatureLocation(0, min(4, len(seq)), strand=-1),
                type="CDS",
                qualifiers={"citation": ["[2]"]},
            )
        )
    return rec


def public_classes(mod):
    res = []
    for name in sorted(vars(mod)):
        obj = getattr(mod, name)
        if name.startswith("_") or not inspect.isclass(obj):
            continue
        if getattr(obj, "__module__", None) != mod.__name__:
            continue
        res.append(obj)
    return res


KITS = [ytk, cidar, ecoflex, kmoclo, plant]
KIT_CLASSES = {kit.__name__: public_classes(kit) for kit in KITS}
ABSTRACT_PARTS = {
    ytk.__name__: [ytk.YTKPart],
    cidar.__name__: [cidar.CIDARPart],
    ecoflex.__name__: [ecoflex.EcoFlexPart],
    kmoclo.__name__: [kmoclo.MoCloPart],
    plant.__name__: [kmoclo.MoCloPart],
}


def record_api(entity):
    """All the public observations on a structured record."""
    res = [outcome(entity.is_valid)]
    for meth in ("overhang_start", "overhang_end", "target_sequence", "placeholder_sequence"):
        if hasattr(entity, meth):
            res.append((meth, outcome(getattr(entity, meth))))
    return res


# --- section 1: class level observations ------------------------------------


def section_classes():
    for kit in KITS:
        for cls in KIT_CLASSES[kit.__name__]:
            log(
                "class",
                kit.__name__,
                cls.__name__,
                outcome(cls.structure),
                repr(getattr(cls, "cutter", None)),
                repr(getattr(cls, "signature", None)),
                getattr(cls, "_level", None),
                mutils.isabstract(cls),
                issubclass(cls, parts.AbstractPart),
                issubclass(cls, modules.AbstractModule),
                issubclass(cls, vectors.AbstractVector),
                sorted(n for n in dir(cls) if not n.startswith("_")),
            )
            # structure is callable on instances too
            rec = make_record("ACGT" * 5, "dummy")
            log("inst-structure", cls.__name__, outcome(lambda c=cls, r=rec: c(r).structure()))
    for cls in (parts.AbstractPart, modules.AbstractModule, vectors.AbstractVector,
                modules.Entry, vectors.EntryVector, parts.StructuredRecord):
        log("core-class", cls.__name__, outcome(cls.structure), mutils.isabstract(cls))
        log("core-new", cls.__name__, outcome(lambda c=cls: c(make_record("ACGT", "x"))))


# --- section 2: generated records against every class of the kit ------------


def section_records(rounds=3):
    for kit in KITS:
        classes = KIT_CLASSES[kit.__name__]
        for cls in classes:
            try:
                pattern = cls.structure()
            except Exception:
                continue
            for k in range(rounds):
                core = instantiate(pattern)
                ident = "{}_{}".format(cls.__name__, k)
                variants = [
                    make_record(core, ident + "a"),
                    make_record(core, ident + "b", rot=RNG.randint(1, len(core) + 30), case=2),
                    make_record(core, ident + "c", rot=-RNG.randint(1, 3 * len(core)), case=1, feats=True),
                    # rotation that cuts through the core: match wraps the origin
                    make_record(core, ident + "d", rot=RNG.randint(1, max(1, len(core) - 1)), feats=True),
                ]
                if k == 0:
                    variants.append(make_record(core, ident + "e", circular=False, topology="linear"))
                    variants.append(make_record(core, ident + "f", rot=7, circular=False, topology="LINEAR"))
                    variants.append(make_record(core, ident + "g", rot=5, circular=False, topology="Circular"))
                    variants.append(make_record(core, ident + "h", rot=len(core) * 7 + 3, circular=False))
                    # broken core
                    variants.append(make_record(core[: len(core) // 2], ident + "i"))
                    # illegal extra site
                    variants.append(make_record(core + "GGTCTCA" + "CGTCTCA" + "GAAGACAA", ident + "j"))
                for rec in variants:
                    log("rec", kit.__name__, cls.__name__, rec.id, record_api(cls(rec)))
                    for base in ABSTRACT_PARTS[kit.__name__]:
                        log("char", base.__name__, rec.id, outcome(base.characterize, rec))
                    if issubclass(cls, parts.AbstractPart):
                        log("char-self", cls.__name__, rec.id, outcome(cls.characterize, rec))
                # how do other classes of the kit see the first variant
                for other in classes:
                    if other is cls:
                        continue
                    log("cross", cls.__name__, other.__name__, k,
                        outcome(lambda o=other, r=variants[0]: o(r).is_valid()))
    # nonsense inputs
    for base in (ytk.YTKPart, cidar.CIDARPart, ecoflex.EcoFlexPart, kmoclo.MoCloPart,
                 parts.AbstractPart, ytk.YTKPart1, kmoclo.MoCloLevelMVector):
        for rec in (make_record("", "empty"), make_record("A", "one"), make_record("N" * 30, "enn")):
            log("char-odd", base.__name__, rec.id, outcome(base.characterize, rec))
        log("char-none", base.__name__, outcome(base.characterize, None))
        log("char-str", base.__name__, outcome(base.characterize, "ACGT"))


# --- section 3: assemblies --------------------------------------------------


def part_record(cls, ident, force=None, **kw):
    return make_record(instantiate(cls.structure(), force=force), ident, **kw)


def assemble_case(tag, vector_cls, module_classes, chain=None, ends=None, **kw):
    """``chain``: n+1 overhangs forced on the n modules and on the vector;
    ``ends``: overhangs forced on the vector only."""
    feats = kw.get("feats", False)
    case = kw.get("case", 0)
    n = len(module_classes)
    if chain == "auto":
        chain = overhang_chain(n + 1)
    vforce = None
    mforce = [None] * n
    if chain is not None:
        ends = (chain[0], chain[n])
        mforce = [{1: chain[i], 3: chain[i + 1]} for i in range(n)]
    if ends is not None:
        # vector: group 1 is the downstream overhang, group 3 the upstream one
        vforce = {1: ends[0], 3: ends[1]}
    vec_rec = part_record(vector_cls, tag + "_vec", force=vforce, rot=RNG.randint(0, 200), feats=feats, case=case)
    mod_recs = [
        part_record(c, "{}_m{}".format(tag, i), force=mforce[i], rot=RNG.randint(-100, 300), feats=feats, case=case)
        for i, c in enumerate(module_classes)
    ]

    def run():
        vec = vector_cls(vec_rec)
        mods = [c(r) for c, r in zip(module_classes, mod_recs)]
        return vec.assemble(*mods, **{k: kw[k] for k in ("id", "name") if k in kw})

    log("asm", tag, outcome(run))
    # inputs restored / mutated identically
    log("asm-inputs", tag, describe(vec_rec), [describe(r) for r in mod_recs])


def section_assemblies(rounds=4):
    Y = ytk
    full = [Y.YTKPart1, Y.YTKPart2, Y.YTKPart3, Y.YTKPart4, Y.YTKPart5, Y.YTKPart6, Y.YTKPart7]
    for k in range(rounds):
        feats = bool(k % 2)
        case = k % 3
        assemble_case("ytk-full%d" % k, Y.YTKPart8, full, feats=feats, case=case)
        shuffled = list(full)
        RNG.shuffle(shuffled)
        assemble_case("ytk-shuf%d" % k, Y.YTKPart8, shuffled, feats=feats, id="myid", name="myname")
        assemble_case("ytk-3a3b%d" % k, Y.YTKPart8,
                      [Y.YTKPart1, Y.YTKPart2, Y.YTKPart3a, Y.YTKPart3b, Y.YTKPart4a, Y.YTKPart4b,
                       Y.YTKPart5, Y.YTKPart6, Y.YTKPart7], feats=feats, case=case)
        assemble_case("ytk-234-%d" % k, Y.YTKPart8, [Y.YTKPart1, Y.YTKPart234, Y.YTKPart5, Y.YTKPart6, Y.YTKPart7])
        assemble_case("ytk-234r-%d" % k, Y.YTKPart8, [Y.YTKPart1, Y.YTKPart234r, Y.YTKPart5, Y.YTKPart6, Y.YTKPart7])
        assemble_case("ytk-678-%d" % k, Y.YTKPart678, [Y.YTKPart1, Y.YTKPart2, Y.YTKPart3, Y.YTKPart4, Y.YTKPart5],
                      feats=feats)
        assemble_case("ytk-8a8b-%d" % k, Y.YTKPart8a, full + [Y.YTKPart8b], feats=feats)
        # missing module
        assemble_case("ytk-missing%d" % k, Y.YTKPart8, full[:3] + full[4:], feats=feats)
        # duplicate modules
        assemble_case("ytk-dup%d" % k, Y.YTKPart8, full + [Y.YTKPart3], feats=feats)
        # unused modules
        assemble_case("ytk-unused%d" % k, Y.YTKPart8, full + [Y.YTKPart3b], feats=feats)
        # single / no sensible module
        assemble_case("ytk-one%d" % k, Y.YTKPart8, [Y.YTKPart3], feats=feats)
        # module given as vector type and so on: invalid
        assemble_case("ytk-bad%d" % k, Y.YTKPart8, [Y.YTKPart8a, Y.YTKPart1])

        C = cidar
        assemble_case("cidar%d" % k, C.CIDARCassetteVector,
                      [C.CIDARPromoter, C.CIDARRibosomeBindingSite, C.CIDARCodingSequence, C.CIDARTerminator],
                      chain=["GGAG", "TACT", "AATG", "AGGT", "GCTT"], feats=feats, case=case)
        assemble_case("cidar-missing%d" % k, C.CIDARCassetteVector,
                      [C.CIDARPromoter, C.CIDARCodingSequence, C.CIDARTerminator], ends=("GCTT", "CGCT"), feats=feats)
        assemble_case("cidar-entryvec%d" % k, C.CIDAREntryVector, [C.CIDARProduct, C.CIDARProduct], chain="auto", feats=feats)
        assemble_case("cidar-entryvec-one%d" % k, C.CIDAREntryVector, [C.CIDARProduct], chain="auto", case=case)
        assemble_case("cidar-cassvec-gen%d" % k, C.CIDARCassetteVector, [C.CIDAREntry] * 3, chain="auto", case=case)
        assemble_case("cidar-devvec%d" % k, C.CIDARDeviceVector, [C.CIDARCassette, C.CIDARCassette], chain="auto", feats=feats)
        assemble_case("cidar-devvec-unused%d" % k, C.CIDARDeviceVector, [C.CIDARCassette] * 3,
                      chain=["ACGG", "TTGA", "ACGG", "CCAT"], feats=feats)

        E = ecoflex
        assemble_case("eco%d" % k, E.EcoFlexCassetteVector,
                      [E.EcoFlexPromoter, E.EcoFlexRBS, E.EcoFlexCodingSequence, E.EcoFlexTerminator],
                      feats=feats, case=case)
        assemble_case("eco-tag%d" % k, E.EcoFlexCassetteVector,
                      [E.EcoFlexPromoter, E.EcoFlexTagLinker, E.EcoFlexTag, E.EcoFlexCodingSequence,
                       E.EcoFlexTerminator], feats=feats)
        assemble_case("eco-prbs%d" % k, E.EcoFlexCassetteVector,
                      [E.EcoFlexPromoterRBS, E.EcoFlexCodingSequence, E.EcoFlexTerminator])
        assemble_case("eco-dev%d" % k, E.EcoFlexDeviceVector, [E.EcoFlexCassette, E.EcoFlexCassette], chain="auto", feats=feats)
        assemble_case("eco-cass-gen%d" % k, E.EcoFlexCassetteVector, [E.EcoFlexEntry] * (k + 1), chain="auto", case=case)
        assemble_case("eco-nonpal%d" % k, E.EcoFlexCassetteVector, [E.EcoFlexTag, E.EcoFlexCodingSequence],
                      ends=("TAAA", "TCGA"))
        assemble_case("eco-nonpal-b%d" % k, E.EcoFlexCassetteVector, [E.EcoFlexTagLinker, E.EcoFlexTag],
                      ends=("GTAC", "CATA"), feats=feats)
        assemble_case("eco-tag-only%d" % k, E.EcoFlexCassetteVector, [E.EcoFlexTag], ends=("TAAA", "CATA"), feats=feats)
        assemble_case("eco-dup%d" % k, E.EcoFlexCassetteVector,
                      [E.EcoFlexPromoter, E.EcoFlexRBS, E.EcoFlexRBS, E.EcoFlexCodingSequence, E.EcoFlexTerminator])

        M = kmoclo
        lvl0 = [M.MoCloPro, M.MoClo5U, M.MoCloCDS1, M.MoClo3U, M.MoCloTer]
        assemble_case("moclo%d" % k, M.MoCloCassetteVector, lvl0, ends=("GGAG", "CGCT"), feats=feats, case=case)
        assemble_case("moclo-single%d" % k, M.MoCloSingleCassetteVector, lvl0, ends=("GGAG", "CGCT"), feats=feats)
        assemble_case("moclo-lp%d" % k, M.MoCloLevelPVector, lvl0 + [M.MoCloLevelPEndLinker],
                      chain=["GGAG", "TACT", "AATG", "GCTT", "GGTA", "CGCT", "GGGA"], feats=feats)
        assemble_case("moclo-lm%d" % k, M.MoCloLevelMVector, [M.MoCloCassette, M.MoCloLevelMEndLinker],
                      chain=["TGCC", "GCAA", "GGGA"], feats=feats)
        assemble_case("moclo-el%d" % k, M.MoCloDeviceVector, [M.MoCloCassette, M.MoCloEndLinker],
                      chain=["TGCC", "GCAA", "GGGA"], feats=feats)
        assemble_case("moclo-gene%d" % k, M.MoCloCassetteVector, [M.MoCloGene], ends=("GGAG", "CGCT"))
        assemble_case("moclo-tags%d" % k, M.MoCloCassetteVector,
                      [M.MoCloPro5Uf, M.MoCloNTag, M.MoCloCDS1ns, M.MoCloCTag, M.MoClo3UTer], ends=("GGAG", "CGCT"),
                      feats=feats)
        assemble_case("moclo-sp%d" % k, M.MoCloCassetteVector,
                      [M.MoCloPro5U, M.MoCloSP, M.MoCloCDS2ns, M.MoCloCTag, M.MoClo3U, M.MoCloTer], ends=("GGAG", "CGCT"))
        assemble_case("moclo-entryvec%d" % k, M.MoCloEntryVector, [M.MoCloProduct], chain="auto", feats=feats)

        P = plant
        assemble_case("plant%d" % k, M.MoCloCassetteVector,
                      [P.PlantPro5U, P.PlantFullCDS, P.Plant3U, P.PlantTer], ends=("GGAG", "CGCT"), feats=feats, case=case)
        assemble_case("plant-sig%d" % k, M.MoCloCassetteVector,
                      [M.MoCloPro, P.Plant5U, P.PlantNSignal, P.PlantCDS, P.PlantCSignal, P.Plant3U, P.PlantTer],
                      ends=("GGAG", "CGCT"), feats=feats)
        assemble_case("plant-miss%d" % k, M.MoCloCassetteVector,
                      [P.PlantPro5Uf, P.PlantCDSNonStop, P.PlantCSignal, P.Plant3U, P.PlantTer], ends=("GGAG", "CGCT"))
        assemble_case("plant-5uf%d" % k, M.MoCloCassetteVector,
                      [M.MoCloPro, P.Plant5Uf, P.PlantFullCDS, P.Plant3U, P.PlantTer], ends=("GGAG", "CGCT"))


# --- section 4: subclasses defined by users of the library -------------------


def section_user_subclasses():
    defs = []

    def define(name, bases, **attrs):
        try:
            cls = type(str(name), bases, attrs)
        except Exception as exc:
            log("user-def", name, ("exc", type(exc).__name__, str(exc)))
            return None
        defs.append(cls)
        return cls

    cutters = [BsaI, BsmBI, BbsI, BpiI, SapI, BtsI, BsrDI, EcoRV, MlyI, EcoRI, NotImplemented]
    sigs = [("ATGC", "ATTC"), ("NNNN", "GGGA"), ("AT", "GCC"), ("ATG", "TGA"), ("", ""),
            NotImplemented, ("ATGC",), ("A", "C", "G"), "AC", None, ["TTTT", "CCCC"]]
    bases_list = [
        (parts.AbstractPart, modules.Entry),
        (parts.AbstractPart, modules.Cassette),
        (parts.AbstractPart, vectors.CassetteVector),
        (parts.AbstractPart, vectors.EntryVector),
        (parts.AbstractPart,),
        (parts.AbstractPart, modules.Product, vectors.DeviceVector),
        (parts.AbstractPart, vectors.DeviceVector, modules.Device),
    ]
    n = 0
    for bases in bases_list:
        for cutter in cutters:
            for sig in sigs:
                n += 1
                cls = define("User%d" % n, bases, cutter=cutter, signature=sig)
                if cls is None:
                    continue
                st = outcome(cls.structure)
                log("user", n, [b.__name__ for b in bases], repr(cutter), repr(sig), st,
                    mutils.isabstract(cls))
                if st[0] == "ok" and n % 3 == 0:
                    try:
                        core = instantiate(cls.structure())
                    except Exception as exc:
                        log("user-inst", n, type(exc).__name__)
                        continue
                    for j in range(2):
                        rec = make_record(core, "u%d_%d" % (n, j), rot=RNG.randint(-50, 50) if j else 0, case=j)
                        log("user-rec", n, j, outcome(lambda c=cls, r=rec: record_api(c(r))))
                        log("user-char", n, j, outcome(cls.characterize, rec))
                else:
                    rec = make_record("ACGTGGTCTCAATGCAAAAAATTCAGAGACCTT", "u%d" % n)
                    log("user-char0", n, outcome(cls.characterize, rec))

    # user hierarchies for characterize: order of the subclasses, abstract
    # roots, concrete roots, and grand-children (not looked at).
    class UserKitPart(parts.AbstractPart):
        cutter = BsaI
        signature = NotImplemented

    class UserEntry(modules.Entry):
        cutter = BsaI

    class UserA(UserKitPart, UserEntry):
        signature = ("AAAA", "CCCC")

    class UserB(UserKitPart, UserEntry):
        signature = ("CCCC", "GGGG")

    class UserB2(UserB):
        signature = ("CCCC", "TTTT")

    class UserAny(UserKitPart, UserEntry):
        signature = ("NNNN", "NNNN")

    class UserConcreteRoot(parts.AbstractPart, UserEntry):
        cutter = BsaI
        signature = ("ACAC", "NNNN")

    class UserConcreteChild(UserConcreteRoot):
        signature = ("ACAC", "GTGT")

    @six.add_metaclass(abc.ABCMeta)
    class UserABC(UserKitPart, UserEntry):
        signature = ("TTTT", "AAAA")

        @abc.abstractmethod
        def something(self):
            pass

    class UserABCImpl(UserABC):
        def something(self):
            return 1

    class UserNoCutter(parts.AbstractPart, modules.Entry):
        signature = ("AAAA", "CCCC")

    class UserNoCutterChild(UserNoCutter):
        cutter = BsaI

    class UserBlunt(UserKitPart, UserEntry):
        cutter = EcoRV
        signature = ("AAAA", "CCCC")

    roots = [UserKitPart, UserA, UserB, UserB2, UserAny, UserConcreteRoot, UserConcreteChild,
             UserABC, UserABCImpl, UserNoCutter, UserNoCutterChild]
    for root in roots:
        log("user-root", root.__name__, mutils.isabstract(root), outcome(root.structure),
            [c.__name__ for c in root.__subclasses__()])
    targets = [UserA, UserB, UserB2, UserAny, UserConcreteRoot, UserConcreteChild, UserABCImpl]
    for t in targets:
        for j in range(4):
            core = instantiate(t.structure())
            rec = make_record(core, "{}_{}".format(t.__name__, j), rot=RNG.randint(-80, 80) * j, case=j % 3,
                              feats=bool(j % 2))
            for root in roots:
                log("user-hier", t.__name__, j, root.__name__, outcome(root.characterize, rec))
    # a blunt subclass registered later makes characterize of the root fail
    # when it gets to it
    log("user-blunt", outcome(UserBlunt.structure))
    for j in range(3):
        rec = make_record(instantiate(UserB.structure()), "blunt%d" % j, rot=j * 13)
        log("user-hier-blunt", j, outcome(UserKitPart.characterize, rec))
        rec = make_record("ACGT" * 10, "nomatch%d" % j, rot=j)
        log("user-hier-nomatch", j, outcome(UserKitPart.characterize, rec))

    # subclasses of kit classes
    class MyYTK3(ytk.YTKPart3):
        pass

    class MyYTKNew(ytk.YTKPart, ytk.YTKEntry):
        signature = ("GGGG", "TTTT")

    class MyYTKVec(ytk.YTKPart, ytk.YTKCassetteVector):
        signature = ("GGGG", "TTTT")

    class My234r(ytk.YTKPart234r):
        signature = ("CCCC", "AAAA")

    class MyProduct(ytk.YTKProduct):
        cutter = BsaI

    class MyCidarVec(cidar.CIDAREntryVector):
        pass

    class MyCidarVec2(cidar.CIDARDeviceVector):
        cutter = BsaI

        @staticmethod
        def structure():
            return "(AAAA)(N*)(CCCC)"

    class MyCidarVec3(cidar.CIDARCassetteVector, cidar.CIDARPart):
        signature = ("ACGT", "TGCA")

    class MyCidarPart(cidar.CIDARPart, cidar.CIDARDeviceVector):
        signature = ("ACGT", "TGCA")

    class MyCidarCoop(cidar.CIDAREntryVector):
        @staticmethod
        def structure():
            return super(MyCidarCoop, MyCidarCoop).structure() + "N"

    class MyEcoVec(ecoflex.EcoFlexDeviceVector):
        pass

    class MyEcoPart(ecoflex.EcoFlexPart, ecoflex.EcoFlexCassetteVector):
        signature = ("ACGT", "TGCA")

    class MyEcoPart2(ecoflex.EcoFlexCassetteVector, ecoflex.EcoFlexPart):
        signature = ("ACGT", "TGCA")

    class MyLevelM(kmoclo.MoCloLevelMVector):
        signature = ("GGGA", "ACGA")

    class MyLevelM2(kmoclo.MoCloLevelMEndLinker):
        @classmethod
        def structure(cls):
            return "NN" + super(MyLevelM2, cls).structure()

    class MyLevelP(kmoclo.MoCloLevelPVector, kmoclo.MoCloLevelPEndLinker):
        pass

    class MyMoCloMix(kmoclo.MoCloEntryVector, kmoclo.MoCloPart):
        signature = ("ACGT", "TGCA")

    class MyMoCloMix2(kmoclo.MoCloPart, kmoclo.MoCloEntryVector):
        signature = ("ACGT", "TGCA")

    class MyOtherPart(parts.AbstractPart):
        cutter = BpiI
        signature = ("TTTT", "GGGG")

        @classmethod
        def structure(cls):
            return "X" + super(MyOtherPart, cls).structure()

    class MyMoCloDiamond(kmoclo.MoCloPart, MyOtherPart, kmoclo.MoCloEntry):
        pass

    class MyPlant(plant.PlantTer):
        cutter = BpiI

    mine = [MyYTK3, MyYTKNew, MyYTKVec, My234r, MyProduct, MyCidarVec, MyCidarVec2, MyCidarVec3,
            MyCidarPart, MyCidarCoop, MyEcoVec, MyEcoPart, MyEcoPart2, MyLevelM, MyLevelM2, MyLevelP,
            MyMoCloMix, MyMoCloMix2, MyMoCloDiamond, MyPlant]
    for cls in mine:
        st = outcome(cls.structure)
        log("mine", cls.__name__, st, mutils.isabstract(cls), repr(cls.cutter))
        if st[0] != "ok":
            continue
        for j in range(4):
            try:
                core = instantiate(cls.structure())
            except KeyError as exc:
                log("mine-inst", cls.__name__, repr(exc))
                break
            rec = make_record(core, "{}_{}".format(cls.__name__, j), rot=RNG.randint(-100, 100) * (j % 2),
                              case=j % 3, feats=j > 1)
            log("mine-rec", cls.__name__, j, outcome(lambda c=cls, r=rec: record_api(c(r))))
            for root in (ytk.YTKPart, cidar.CIDARPart, ecoflex.EcoFlexPart, kmoclo.MoCloPart):
                log("mine-char", cls.__name__, j, root.__name__, outcome(root.characterize, rec))
    # kit roots again, now that user subclasses were registered
    for kit in KITS:
        for cls in KIT_CLASSES[kit.__name__]:
            if not issubclass(cls, parts.AbstractPart):
                continue
            try:
                core = instantiate(cls.structure())
            except Exception:
                continue
            rec = make_record(core, "again_" + cls.__name__, rot=RNG.randint(0, 99), case=2)
            for base in ABSTRACT_PARTS[kit.__name__]:
                log("char-again", base.__name__, cls.__name__, outcome(base.characterize, rec))
    # an assembly with user classes
    assemble_case("user-asm", MyYTKVec, [ytk.YTKEntry, ytk.YTKEntry], chain=["TTTT", "ACCA", "GGGG"], feats=True)
    assemble_case("user-asm-b", MyYTKVec, [MyYTKNew], feats=True)
    assemble_case("user-asm2", MyCidarVec, [cidar.CIDARProduct], chain="auto", feats=True)
    assemble_case("user-asm3", MyLevelM, [kmoclo.MoCloCassette, kmoclo.MoCloLevelMEndLinker],
                  chain=["ACGA", "GCAA", "GGGA"])
    return defs


# --- section 5: moclo._utils -------------------------------------------------


def section_utils():
    import collections.abc

    # classproperty
    class WithProp(object):
        counter = 0

        @mutils.classproperty
        def name(cls):
            cls.counter += 1
            return "{}:{}".format(cls.__name__, cls.counter)

        @mutils.classproperty
        def boom(cls):
            raise KeyError(cls.__name__)

        @mutils.classproperty
        def missing(cls):
            return NotImplemented

    class SubProp(WithProp):
        pass

    log("cp", WithProp.name, WithProp().name, SubProp.name, SubProp().name, WithProp.name,
        outcome(lambda: WithProp.boom), outcome(lambda: SubProp().boom),
        type(vars(WithProp)["name"]).__name__, vars(WithProp)["name"].getter.__name__)
    log("cp-abs", outcome(mutils.isabstract, WithProp), outcome(mutils.isabstract, SubProp), WithProp.counter)

    # isabstract
    class Plain(object):
        x = 1

    class HasNI(object):
        x = NotImplemented

    class HasNIChild(HasNI):
        pass

    class HasNIFixed(HasNI):
        x = 2

    @six.add_metaclass(abc.ABCMeta)
    class Abstract(object):
        @abc.abstractmethod
        def f(self):
            pass

    class Concrete(Abstract):
        def f(self):
            return 1

    class RaisingAttr(object):
        @mutils.classproperty
        def bad(cls):
            raise AttributeError("hidden")

    class RaisingAttr2(object):
        @mutils.classproperty
        def bad(cls):
            raise ValueError("not hidden")

    class Meta(type):
        def __dir__(cls):
            return ["zzz", "x", "nope"]

    class WithMeta(six.with_metaclass(Meta, object)):
        x = NotImplemented

    class WithMeta2(six.with_metaclass(Meta, object)):
        x = 0
        hidden = NotImplemented

    subjects = [Plain, HasNI, HasNIChild, HasNIFixed, Abstract, Concrete, RaisingAttr, RaisingAttr2,
                WithMeta, WithMeta2, int, str, object, type, collections.abc.Iterable,
                collections.abc.Mapping, dict, Plain(), HasNI(), 3, None, "s", NotImplemented]
    for s in subjects:
        log("isabstract", "instance of " + type(s).__name__ if not inspect.isclass(s) else s.__name__,
            outcome(mutils.isabstract, s))
    for kit in KITS:
        for cls in KIT_CLASSES[kit.__name__]:
            log("isabstract-kit", cls.__name__, outcome(mutils.isabstract, cls))

    # catch_warnings
    class MyWarning(UserWarning):
        pass

    def noisy(a, b=2, *args, **kwargs):
        """Noisy docstring."""
        warnings.warn("user %r" % (a,), UserWarning)
        warnings.warn("mine %r" % (b,), MyWarning)
        warnings.warn("dep %r" % (args,), DeprecationWarning)
        warnings.warn(BiopythonWarning("bio %r" % (sorted(kwargs.items()),)))
        if a == "raise":
            raise KeyError(b)
        if a == "filters":
            return [f[:4] for f in warnings.filters[:3]]
        return (a, b, args, sorted(kwargs.items()))

    noisy.custom = "attr"
    actions = ["ignore", "error", "always", "default", "module", "once", "bogus", None, 3]
    categories = [Warning, UserWarning, MyWarning, DeprecationWarning, BiopythonWarning, int, "x"]
    n = 0
    for action in actions:
        for category in categories:
            for extra in ({}, {"lineno": 0, "append": True}, {"lineno": 10 ** 6}, {"lineno": -1},
                          {"append": 1}, {"lineno": "x"}):
                n += 1

                def build():
                    return mutils.catch_warnings(action, category, **extra)(noisy)

                built = outcome(build)
                log("cw-build", n, repr(action), getattr(category, "__name__", category), sorted(extra.items()),
                    built[0], built[1] if built[0] == "exc" else None)
                if built[0] != "ok":
                    continue
                wrapped = build()
                log("cw-meta", n, wrapped.__name__, wrapped.__doc__, wrapped.custom,
                    wrapped.__wrapped__ is noisy, wrapped.__module__)
                before = list(warnings.filters)
                for call in (
                    lambda: wrapped(1),
                    lambda: wrapped("x", 5, 6, 7, k=1, j=2),
                    lambda: wrapped("raise", "key"),
                    lambda: wrapped("filters"),
                    lambda: wrapped(),
                    lambda: wrapped(a=1, b=2, c=3),
                ):
                    log("cw-call", n, outcome(call), warnings.filters == before)
    # positional arguments, keyword arguments, nesting
    deco = mutils.catch_warnings("ignore", UserWarning, 0, False)
    deco2 = mutils.catch_warnings(action="error", category=MyWarning, lineno=0, append=True)
    log("cw-nest", outcome(deco(deco2(noisy)), 1), outcome(deco2(deco(noisy)), 1),
        outcome(deco(deco(noisy)), "raise"))
    log("cw-default", outcome(mutils.catch_warnings("error")(noisy), 1))
    log("cw-sig", outcome(mutils.catch_warnings), outcome(mutils.catch_warnings, "a", "b", "c", "d", "e"),
        outcome(lambda: mutils.catch_warnings("ignore")()), outcome(lambda: mutils.catch_warnings("ignore")(1, 2)),
        outcome(lambda: mutils.catch_warnings("ignore")(None).__name__),
        outcome(lambda: mutils.catch_warnings("ignore")(None)()),
        outcome(lambda: mutils.catch_warnings("error")(functools.partial(noisy, 1))(3)),
        outcome(lambda: mutils.catch_warnings("error")(functools.partial(noisy, 1)).__name__),
        str(inspect.signature(mutils.catch_warnings)), str(inspect.signature(mutils.isabstract)),
        str(inspect.signature(deco(noisy))))

    # methods, generators and the decorated assemble()
    class Holder(object):
        @mutils.catch_warnings("ignore", category=MyWarning)
        def meth(self, x):
            warnings.warn("m", MyWarning)
            warnings.warn("u", UserWarning)
            return x * 2

        @mutils.catch_warnings("error")
        def gen(self, x):
            # the filter is gone by the time the generator body runs
            warnings.warn("g", UserWarning)
            yield x

    h = Holder()
    log("cw-meth", outcome(h.meth, 4), outcome(Holder.meth, h, 5), outcome(lambda: list(h.gen(3))),
        Holder.meth.__name__)


def main():
    section_classes()
    section_records()
    section_assemblies()
    section_user_subclasses()
    section_utils()
    section_records(rounds=1)
    blob = "\n".join(RESULTS).encode("utf-8")
    print(len(RESULTS), "observations")
    print(hashlib.sha256(blob).hexdigest())
    if len(sys.argv) > 1:
        with open(sys.argv[1], "wb") as f:
            f.write(blob)


main()
