# coding: utf-8
"""Differential test for the code around ``moclo.record.CircularRecord``.

Run as ``cd /tmp/agents8/C15 && /venv/bin/python pairs_out/<dir>/equiv.py``.
Prints a digest of every observed result / exception / warning / input state.
Set ``EQUIV_DUMP=/some/file`` to also write the individual lines.
"""
import sys

sys.path.insert(0, "/tmp/agents8/C15")
import tests  # noqa: F401,E402  (splices the kits into the moclo namespace)

import copy  # noqa: E402
import hashlib  # noqa: E402
import inspect  # noqa: E402
import io  # noqa: E402
import os  # noqa: E402
import random  # noqa: E402
import re  # noqa: E402
import warnings  # noqa: E402

import fs  # noqa: E402
from Bio.Seq import Seq, MutableSeq  # noqa: E402
from Bio.SeqIO import write  # noqa: E402
from Bio.SeqRecord import SeqRecord  # noqa: E402
from Bio.SeqFeature import (  # noqa: E402
    SeqFeature,
    FeatureLocation,
    CompoundLocation,
    Reference,
)
from Bio.Restriction import BpiI, BsaI, BsmBI, SapI, EcoRI, EcoRV  # noqa: E402

from moclo import errors  # noqa: E402
from moclo.record import CircularRecord  # noqa: E402
from moclo.regex import DNARegex, SeqMatch  # noqa: E402
from moclo.core import modules, vectors, parts  # noqa: E402
from moclo.core._structured import StructuredRecord  # noqa: E402
from moclo.registry import base as rbase  # noqa: E402
from moclo.registry._utils import find_resistance  # noqa: E402
from moclo.kits import ytk, cidar, ecoflex, plant  # noqa: E402
from moclo.kits import moclo as moclokit  # noqa: E402
from moclo.registry.ytk import YTKRegistry, PTKRegistry  # noqa: E402
from moclo.registry.cidar import CIDARRegistry  # noqa: E402
from moclo.registry.ecoflex import EcoFlexRegistry  # noqa: E402
from moclo.registry.plant import PlantRegistry  # noqa: E402

LINES = []
_ADDR = re.compile(r" at 0x[0-9a-fA-F]+")


def clean(text):
    text = _ADDR.sub("", text)
    return text.replace("/tmp/agents8/C15", "<wt>")


def out(*items):
    LINES.append(clean(" | ".join(str(i) for i in items)))


def feat(f):
    return "F({!r},{},{},{})".format(
        f.location, f.type, f.id, sorted((k, repr(v)) for k, v in f.qualifiers.items())
    )


def state(rec):
    """A printable digest of everything a record holds."""
    if rec is None:
        return "None"
    if isinstance(rec, (str, Seq)):
        return "{}:{}".format(type(rec).__name__, str(rec))
    return "{}[{}|{}|{}|{}|{}|{}|{}|{}]".format(
        type(rec).__name__,
        str(rec.seq),
        rec.id,
        rec.name,
        rec.description,
        rec.dbxrefs,
        [feat(f) for f in rec.features],
        sorted((k, repr(v)) for k, v in rec.annotations.items()),
        sorted((k, repr(v)) for k, v in rec.letter_annotations.items()),
    )


def attempt(label, func, *watched):
    """Run ``func``; record result or exception, warnings, and input state."""
    with warnings.catch_warnings(record=True) as caught:
        warnings.simplefilter("always")
        try:
            res = func()
            if isinstance(res, (SeqRecord,)):
                res_s = state(res)
            elif isinstance(res, SeqMatch):
                res_s = "SeqMatch{}{}".format(res.span(), res.shift)
            else:
                res_s = "{}:{!r}".format(type(res).__name__, res)
            out(label, "OK", res_s)
        except Exception as exc:  # noqa
            res = exc
            out(label, "EXC", type(exc).__name__, str(exc))
    for w in caught:
        out(label, "WARN", w.category.__name__, str(w.message))
    for i, w in enumerate(watched):
        out(label, "AFTER", i, state(w))
    return res


rng = random.Random(1515)


def randseq(n, alphabet="ACGT"):
    return "".join(rng.choice(alphabet) for _ in range(n))


def rich_record(text, cls=SeqRecord, topology="circular", seqcls=Seq):
    n = len(text)
    feats = []
    if n >= 4:
        feats.append(
            SeqFeature(
                FeatureLocation(1, 3, strand=1),
                type="promoter",
                id="p1",
                qualifiers={"label": ["prom"], "citation": ["[1]"]},
            )
        )
        feats.append(SeqFeature(FeatureLocation(0, n), type="source", qualifiers={"organism": ["x"]}))
        feats.append(
            SeqFeature(
                CompoundLocation([FeatureLocation(n - 2, n, strand=-1), FeatureLocation(0, 2, strand=-1)]),
                type="CDS",
                qualifiers={"label": ["KanR"]},
            )
        )
    ref = Reference()
    ref.title = "a paper"
    ref.authors = "someone"
    annotations = {"molecule_type": "DNA", "references": [ref], "comment": ["one", "two"], "keywords": [""]}
    if topology is not None:
        annotations["topology"] = topology
    return cls(
        seqcls(text),
        id="rec{}".format(n),
        name="name{}".format(n),
        description="desc",
        dbxrefs=["db:1", "db:2"],
        features=feats,
        annotations=annotations,
        letter_annotations={"phred_quality": list(range(n))},
    )


# --- 1. construction --------------------------------------------------------

out("SIGNATURE", inspect.signature(CircularRecord.__init__))
out("MRO", [c.__name__ for c in CircularRecord.__mro__ if not c.__name__.startswith("_") and c.__name__ != "CutRecord"])
for name in ("__add__", "__radd__", "__contains__", "__getitem__", "__lshift__", "__rshift__", "reverse_complement", "__init__"):
    f = CircularRecord.__dict__[name]
    out("METHOD", name, f.__name__, inspect.cleandoc(f.__doc__ or ""), type(f).__name__)
out("HAS", [n for n in ("__iadd__", "__mul__", "__eq__", "__hash__", "__slots__") if n in CircularRecord.__dict__])

for n in (0, 1, 2, 4, 5, 9, 16):
    text = randseq(n)
    for topo in ("circular", "Circular", "CIRCULAR", "linear", "Linear", "LINEAR", "", "other", None, 5, b"linear"):
        src = rich_record(text)
        if topo is None:
            del src.annotations["topology"]
        else:
            src.annotations["topology"] = topo
        before = state(src)
        res = attempt("wrap n={} topo={!r}".format(n, topo), lambda: CircularRecord(src), src)
        out("wrap-unchanged", before == state(src))
        # direct construction with the same pieces
        attempt(
            "direct n={} topo={!r}".format(n, topo),
            lambda: CircularRecord(
                src.seq, src.id, src.name, src.description, src.dbxrefs, src.features, src.annotations, src.letter_annotations
            ),
            src,
        )
        if isinstance(res, CircularRecord):
            # aliasing between the wrapper and the original
            out(
                "alias",
                res.seq is src.seq,
                res.dbxrefs is src.dbxrefs,
                res.features is src.features,
                res.annotations is src.annotations,
                res.letter_annotations is src.letter_annotations,
                [a is b for a, b in zip(res.features, src.features)],
                [a.qualifiers is b.qualifiers for a, b in zip(res.features, src.features)],
                [res.annotations[k] is src.annotations[k] for k in ("references", "comment", "keywords")],
                res.annotations["references"][0] is src.annotations["references"][0],
            )
            # edit the copy at every depth, look at the original
            res.id = "edited"
            res.dbxrefs.append("db:3")
            res.annotations["new"] = 1
            res.annotations["comment"].append("three")
            res.annotations["references"][0].title = "changed"
            res.annotations["references"].append("r2")
            if res.features:
                res.features[0].qualifiers["label"].append("more")
                res.features[0].qualifiers["new"] = ["x"]
                res.features.pop()
            res.letter_annotations["phred_quality"][:1] = [99] if n else []
            out("isolation copy->orig", before == state(src), state(src))
            # edit the original, look at the copy
            snap = state(res)
            src.dbxrefs.append("db:9")
            src.annotations["comment"].append("nine")
            src.annotations["nine"] = 9
            if src.features:
                src.features[0].qualifiers["label"].append("nine")
            out("isolation orig->copy", snap == state(res))

# wrapping a CircularRecord, keyword use, defaults, other argument types
cr = rich_record("ATGCATGGCC", cls=CircularRecord)
attempt("wrap circular", lambda: CircularRecord(cr), cr)
attempt("wrap + ignored args", lambda: CircularRecord(cr, "other-id", annotations={"topology": "linear"}), cr)
attempt("kw seq", lambda: CircularRecord(seq=Seq("ATGC"), id="kw"))
attempt("defaults", lambda: CircularRecord(Seq("ATGC")))
attempt("str seq", lambda: CircularRecord("ATGC"))
attempt("none seq", lambda: CircularRecord(None))
attempt("mutable seq", lambda: CircularRecord(MutableSeq("ATGC"), id="m"))
attempt("annotations list", lambda: CircularRecord(Seq("ATGC"), annotations=[("topology", "linear")]))
attempt("annotations empty", lambda: CircularRecord(Seq("ATGC"), annotations={}))
attempt("bad letter annotations", lambda: CircularRecord(Seq("ATGC"), letter_annotations={"q": [1]}))
attempt("bad id", lambda: CircularRecord(Seq("ATGC"), id=5))
attempt("no args", lambda: CircularRecord())
m = SeqRecord(MutableSeq("ATGCAT"), id="mut")
w = CircularRecord(m)
out("mutable shared", w.seq is m.seq)


class Sub(CircularRecord):
    pass


attempt("subclass wrap", lambda: Sub(rich_record("ATGCATGC")))
attempt("subclass rshift", lambda: Sub(rich_record("ATGCATGC")) >> 3)
attempt("subclass revcomp", lambda: Sub(rich_record("ATGCATGC")).reverse_complement())
attempt("subclass slice", lambda: Sub(rich_record("ATGCATGC"))[2:5])

# --- 2. concatenation -------------------------------------------------------

for n in (0, 1, 6):
    r = rich_record(randseq(n), cls=CircularRecord)
    operands = [
        "",
        "ACGT",
        Seq("ACGT"),
        Seq(""),
        MutableSeq("AC"),
        SeqRecord(Seq("ACGT"), id="lin"),
        rich_record("ACGTAC"),
        CircularRecord(Seq("ACGT"), id="circ"),
        r,
        5,
        None,
        b"AC",
        ["A"],
        ("A",),
        1.5,
    ]
    for i, x in enumerate(operands):
        attempt("add n={} r+x{}".format(n, i), lambda: r + x, r, x if isinstance(x, SeqRecord) else None)
        attempt("add n={} x{}+r".format(n, i), lambda: x + r, r, x if isinstance(x, SeqRecord) else None)

        def iadd_r():
            y = r
            y += x
            return y

        def iadd_x():
            y = x
            y += r
            return y

        attempt("add n={} r+=x{}".format(n, i), iadd_r, r)
        attempt("add n={} x{}+=r".format(n, i), iadd_x, r)
    attempt("add n={} explicit __add__".format(n), lambda: r.__add__("A"))
    attempt("add n={} explicit __radd__".format(n), lambda: r.__radd__("A"))
    attempt("add n={} noarg __add__".format(n), lambda: r.__add__())
    attempt("add n={} kw __radd__".format(n), lambda: r.__radd__(other="A", more=1))
    attempt("add n={} sum".format(n), lambda: sum([r, r]))
attempt("add unbound", lambda: CircularRecord.__add__(None, 1))

# --- 3. membership ----------------------------------------------------------

for n in list(range(0, 9)) + [12, 17]:
    for alphabet in ("ACGT", "AC", "ACGTacgtN"):
        text = randseq(n, alphabet)
        r = CircularRecord(Seq(text), id="m")
        queries = set()
        doubled = text * 3
        for k in range(0, n + 3):
            for s in range(0, max(n, 1)):
                queries.add(doubled[s : s + k])
            queries.add(randseq(k, alphabet))
        queries.update(q.lower() for q in list(queries))
        queries.update(q.upper() for q in list(queries))
        res = []
        for q in sorted(queries):
            rot = [q in CircularRecord(Seq(text[i:] + text[:i])) for i in range(max(n, 1))]
            res.append((q, q in r, all(x == rot[0] for x in rot), rot[0]))
        out("contains", text, res)
        out("contains-after", state(r))
        if n:
            out("contains-shifted", [[q in (r >> i) for q in sorted(queries)] == [x[1] for x in res] for i in range(n)])
r = rich_record("ATGCATGGCC", cls=CircularRecord)
for q in ("", "A", Seq("ATG"), Seq(""), Seq("ATGCATGGCCATGCATGGCC"), 5, None, b"ATG", b"", ["A"], [], ("A", "T"), r, SeqRecord(Seq("AT")), MutableSeq("CCA")):
    attempt("contains odd {!r}".format(type(q).__name__), lambda: q in r)
    attempt("contains odd explicit {!r}".format(type(q).__name__), lambda: r.__contains__(q))
attempt("contains seq-none", lambda: "A" in CircularRecord(None))
attempt("contains mutable", lambda: ["CAT" in CircularRecord(MutableSeq("ATGC")), "CATG" in CircularRecord(MutableSeq("ATGC"))])
attempt("iteration", lambda: list(CircularRecord(Seq("ATGC"))))
attempt("len", lambda: len(CircularRecord(Seq("ATGC"))))

# --- 4. slices and indices --------------------------------------------------

bounds = [None, 0, 1, 2, 5, 9, 10, 11, 25, -1, -3, -10, -11, -30]
for n in (0, 1, 5, 10):
    text = randseq(n)
    for topo in ("circular", None):
        r = rich_record(text, cls=CircularRecord, topology=topo)
        before = state(r)
        for a in bounds:
            for b in bounds:
                for step in (None, 1):
                    s = r[a:b:step]
                    out(
                        "slice n={} topo={} [{}:{}:{}]".format(n, topo, a, b, step),
                        type(s).__name__,
                        str(s.seq) == text[a:b:step],
                        state(s),
                    )
                    out("slice alias", s.annotations is r.annotations, s.dbxrefs is r.dbxrefs, [any(f.qualifiers is g.qualifiers for g in r.features) for f in s.features])
        for sl in (slice(None, None, -1), slice(None, None, 2), slice(8, 1, -2), slice(1, 8, 3), slice(None, None, 0), slice("a", None), slice(1.5, 3)):
            def do():
                s = r[sl]
                return (type(s).__name__, str(s.seq) == text[sl], state(s))
            attempt("slice n={} topo={} {}".format(n, topo, sl), do)
        for idx in (0, 1, -1, n - 1, n, -n - 1, 100, "a", None, 1.0, (1, 2), True):
            attempt("index n={} {!r}".format(n, idx), lambda: r[idx])
        out("slice-unchanged", before == state(r))
r = rich_record("ATGCATGGCC", cls=CircularRecord)
s = r[2:8]
s.annotations["x"] = 1
s.features and s.features[0].qualifiers.setdefault("z", []).append(1)
s.letter_annotations["phred_quality"][0] = 77
out("slice edits", state(r))
lin = r[:]
attempt("slice then wrap", lambda: CircularRecord(lin), lin)
lin.annotations["topology"] = "linear"
attempt("slice declared linear then wrap", lambda: CircularRecord(lin), lin)
attempt("slice + slice", lambda: r[2:4] + r[6:9], r)
attempt("slice + str", lambda: r[2:4] + "AA", r)
attempt("str + slice", lambda: "AA" + r[2:4], r)

# --- 5. rotation / reverse complement --------------------------------------

for n in (1, 4, 7, 10):
    text = randseq(n)
    r = rich_record(text, cls=CircularRecord)
    before = state(r)
    for k in list(range(-n - 2, 2 * n + 3)) + [10 ** 6, -(10 ** 6)]:
        a = attempt("rshift n={} k={}".format(n, k), lambda: r >> k)
        b = attempt("lshift n={} k={}".format(n, k), lambda: r << k)
        out("shift identity", a is r, b is r)
        if isinstance(a, CircularRecord) and a is not r:
            out("shift alias", a.annotations is r.annotations, a.dbxrefs is r.dbxrefs, [f.qualifiers is g.qualifiers for f, g in zip(a.features, r.features)])
    attempt("revcomp n={}".format(n), lambda: r.reverse_complement(), r)
    attempt("revcomp n={} all".format(n), lambda: r.reverse_complement(id=True, name=True, description=True, annotations=True, dbxrefs=True), r)
    attempt("revcomp n={} named".format(n), lambda: r.reverse_complement(id="rc", features=False, letter_annotations=False), r)
    out("shift-unchanged", before == state(r))
empty = CircularRecord(Seq(""))
attempt("rshift empty", lambda: empty >> 1)
attempt("lshift empty", lambda: empty << 1)
r = rich_record("ATGCATGGCC", cls=CircularRecord)
for k in ("a", None, 1.5, True):
    attempt("rshift odd {!r}".format(k), lambda: r >> k)
    attempt("lshift odd {!r}".format(k), lambda: r << k)
attempt("rshift rich linear", lambda: rich_record("ATGCATGGCC") >> 2)
nof = CircularRecord(Seq("ATGCATGC"), features=[SeqFeature(None, type="misc"), SeqFeature(FeatureLocation(6, 8), type="x", qualifiers={"a": ["b"]})])
attempt("rshift location none", lambda: nof >> 3, nof)

# --- 6. DNA regex -----------------------------------------------------------

out("lettermap", sorted(DNARegex._lettermap.items()), type(DNARegex._lettermap).__name__ in ("dict", "mappingproxy"))
for pattern in ("ATG", "GGTCTCN(NNNN)", "(AT)N*(GC)", "RYSWKMBDHVN", "atg", "A^T", ""):
    rx = attempt("regex {!r}".format(pattern), lambda: DNARegex(pattern).regex.pattern)
for text in ("ATGCATGGTCTCAACGT", "TCAACGTGGTC", "atgcatggtctcaacgt", "GC", ""):
    targets = [Seq(text), SeqRecord(Seq(text), id="l"), CircularRecord(Seq(text), id="c"), rich_record(text, topology="linear"), text, None, MutableSeq(text)]
    for pattern in ("ATG", "GGTCTCN(NNNN)", "(GT)N*(GG)", "N*"):
        rx = DNARegex(pattern)
        for ti, t in enumerate(targets):
            for kwargs in ({}, {"linear": False}, {"pos": 3}, {"endpos": 2}, {"pos": 2, "endpos": 9, "linear": False}, {"pos": -1}):
                def do():
                    m = rx.search(t, **kwargs)
                    if m is None:
                        return None
                    groups = []
                    for g in range(0, rx.regex.groups + 1):
                        got = m.group(g)
                        groups.append((m.span(g), type(got).__name__, str(got.seq) if isinstance(got, SeqRecord) else str(got)))
                    return (m.start(), m.end(), m.span(), m.shift, m.rec is t, groups)
                attempt("search {!r} {!r} t{} {}".format(pattern, text, ti, sorted(kwargs.items())), do)

# --- 7. core classes --------------------------------------------------------

KITS = (ytk, cidar, ecoflex, plant, moclokit)
for kit in KITS:
    for name in sorted(vars(kit)):
        obj = getattr(kit, name)
        if not (isinstance(obj, type) and issubclass(obj, StructuredRecord)):
            continue
        out(
            "class",
            kit.__name__,
            name,
            [c.__name__ for c in obj.__mro__ if not c.__name__.startswith("_") and c.__name__ != "CutRecord"],
            getattr(obj, "cutter", None),
            getattr(obj, "signature", None),
            getattr(obj, "_level", None),
        )
        attempt("structure {}".format(name), obj.structure)
        attempt("instantiate {}".format(name), lambda: type(obj(CircularRecord(Seq("ATGC")))).__name__)
        attempt("invalid {}".format(name), lambda: obj(CircularRecord(Seq("ATGCATGCATGC"), id="x")).is_valid())
for cls in (modules.AbstractModule, modules.Product, modules.Entry, modules.Cassette, modules.Device, vectors.AbstractVector, vectors.EntryVector, vectors.CassetteVector, vectors.DeviceVector, parts.AbstractPart, StructuredRecord):
    out(
        "core class",
        cls.__name__,
        [c.__name__ for c in cls.__mro__ if not c.__name__.startswith("_") and c.__name__ != "CutRecord"],
        getattr(cls, "_level", "missing"),
        getattr(cls, "cutter", "missing"),
        getattr(cls, "signature", "missing"),
        [(k, callable(getattr(cls, k, None))) for k in ("structure", "overhang_start", "overhang_end", "target_sequence", "placeholder_sequence", "assemble", "characterize", "is_valid", "_get_regex")],
        inspect.cleandoc(cls.__doc__ or ""),
    )
    attempt("core structure {}".format(cls.__name__), cls.structure)
    attempt("core instantiate {}".format(cls.__name__), lambda: cls(CircularRecord(Seq("ATGC"))))


def mock(base, enzyme, **attrs):
    return type(str("Mock" + base.__name__), (base,), dict(cutter=enzyme, **attrs))


for enzyme in (BpiI, BsaI, BsmBI, SapI, EcoRI, EcoRV):
    for base in (modules.Product, modules.Entry, vectors.EntryVector):
        cls = mock(base, enzyme)
        attempt("mock structure {} {}".format(enzyme, base.__name__), cls.structure)
        attempt("mock new {} {}".format(enzyme, base.__name__), lambda: cls(CircularRecord(Seq("ATGC"))).is_valid())


class SigModule(parts.AbstractPart, modules.Entry):
    cutter = BsaI
    signature = ("ATGC", "ATTC")


class SigVector(parts.AbstractPart, vectors.EntryVector):
    cutter = BsmBI
    signature = ("ATGC", "ATTC")


class SigNeither(parts.AbstractPart):
    cutter = BsaI
    signature = ("ATGC", "ATTC")


for cls in (SigModule, SigVector, SigNeither):
    attempt("sig structure {}".format(cls.__name__), cls.structure)

MV = mock(vectors.AbstractVector, BpiI)
MM = mock(modules.AbstractModule, BpiI)


def entity_report(ent):
    return (
        type(ent).__name__,
        ent.is_valid(),
        str(ent.overhang_start()),
        str(ent.overhang_end()),
        state(ent.target_sequence()),
        state(ent.placeholder_sequence()) if hasattr(ent, "placeholder_sequence") else None,
    )


vtext = "CCATGCTTGTCTTCCACAGAAGACTTCGTAGG"
mtext = "GAAGACTTATGCTATACGTATTGTCTTC"
for text, cls in ((vtext, MV), (mtext, MM), (vtext.lower(), MV), (mtext.swapcase(), MM), (vtext + "GAAGACAA", MV), (mtext, MV)):
    for k in range(0, len(text), 3):
        rot = text[k:] + text[:k]
        for rcls in (CircularRecord, SeqRecord):
            for topo in (None, "circular", "linear"):
                if rcls is CircularRecord and topo == "linear":
                    continue
                ann = {} if topo is None else {"topology": topo}
                rec = rcls(Seq(rot), id="e", annotations=ann, features=[SeqFeature(FeatureLocation(2, 9, strand=1), type="misc", qualifiers={"label": ["f"]})])
                before = state(rec)
                attempt("entity {} k={} {} {}".format(cls.__name__, k, rcls.__name__, topo), lambda: entity_report(cls(rec)))
                out("entity-unchanged", before == state(rec))


def assembly(vec, mods, **kwargs):
    res = vec.assemble(*mods, **kwargs)
    return res


cases = {
    "ok": (vtext, ["GAAGACTTATGCTATACGTATTGTCTTC"]),
    "two": ("CCATGCTTGTCTTCCACAGAAGACTTCGTAGG", ["GAAGACTTATGCCACAGGGGTTGTCTTC", "GAAGACTTGGGGTATACGTATTGTCTTC"]),
    "same overhangs": ("CCATGCTTGTCTTCCACAGAAGACTTATGCGG", ["GAAGACTTATGCCACAATGCTTGTCTTC"]),
    "duplicate": (vtext, ["GAAGACTTATGCCACACGTATTGTCTTC", "GAAGACTTATGCTATACGTATTGTCTTC"]),
    "missing": (vtext, ["GAAGACTTATGACACACGTATTGTCTTC"]),
    "unused": (vtext, ["GAAGACTTATGCTATACGTATTGTCTTC", "GAAGACTTAAAACACACCCCTTGTCTTC"]),
    "revcomp": (vtext, ["GAAGACTTATGCTATACGTATTGTCTTC", "GAAGACTTGCATCACACCCCTTGTCTTC"]),
    "invalid module": (vtext, ["ATGCATGC"]),
    "lower": (vtext.lower(), ["gaagacttatgctatacgtattgtcttc"]),
}
for label, (v, ms) in sorted(cases.items()):
    for rot in (0, 7, 20):
        ref = Reference()
        ref.title = "ref " + label
        vrec = CircularRecord(
            Seq(v[rot:] + v[:rot]),
            id="vec",
            name="vec",
            annotations={"topology": "circular", "references": [ref]},
            features=[SeqFeature(FeatureLocation(0, 4, strand=1), type="misc", qualifiers={"citation": ["[1]"], "label": ["AmpR"]})],
        )
        mrecs = [
            CircularRecord(
                Seq(mt[rot % len(mt):] + mt[: rot % len(mt)]),
                id="mod{}".format(i),
                name="mod{}".format(i),
                features=[SeqFeature(FeatureLocation(10, 16, strand=-1), type="CDS", qualifiers={"label": ["cds{}".format(i)]})],
            )
            for i, mt in enumerate(ms)
        ]
        attempt("assembly {} rot={}".format(label, rot), lambda: assembly(MV(vrec), [MM(mr) for mr in mrecs], id="asm", name="asmname"), vrec, *mrecs)
bad = CircularRecord(Seq(vtext), id="vec", features=[SeqFeature(FeatureLocation(0, 4), type="misc", qualifiers={"citation": ["nope"]})])
okm = CircularRecord(Seq(mtext), id="mod")
attempt("assembly bad citation", lambda: assembly(MV(bad), [MM(okm)]), bad, okm)
bad2 = CircularRecord(Seq(vtext), id="vec", features=[SeqFeature(FeatureLocation(0, 4), type="misc", qualifiers={"citation": ["[3]"]})])
attempt("assembly dangling citation", lambda: assembly(MV(bad2), [MM(okm)]), bad2, okm)
attempt("assembly plain seqrecord vector", lambda: assembly(MV(SeqRecord(Seq(vtext), id="lin")), [MM(okm)]))
attempt("assembly plain seqrecord module", lambda: assembly(MV(CircularRecord(Seq(vtext), id="v")), [MM(SeqRecord(Seq(mtext), id="linm"))]))

# --- 8. registries ----------------------------------------------------------

out("antibiotics", sorted(__import__("moclo.registry._utils", fromlist=["x"])._ANTIBIOTICS.items()))
REGISTRIES = [YTKRegistry, PTKRegistry, CIDARRegistry, EcoFlexRegistry, PlantRegistry]
for cls in REGISTRIES:
    reg = cls()
    keys = list(reg)
    out("registry", cls.__name__, len(reg), len(keys), hash(reg) == hash(cls()), reg == cls(), reg == YTKRegistry(), reg != 5)
    for key in keys:
        item = reg[key]
        ent = item.entity
        rec = item.record

        def report():
            valid = ent.is_valid()
            ts = ent.target_sequence() if valid else None
            return (
                item.id,
                item.name,
                item.resistance,
                type(ent).__name__,
                type(rec).__name__,
                valid,
                str(ent.overhang_start()) if valid else None,
                str(ent.overhang_end()) if valid else None,
                hashlib.md5(state(ts).encode()).hexdigest() if valid else None,
                hashlib.md5(state(rec).encode()).hexdigest(),
                str(rec.seq[-7:] + rec.seq[:7]) in rec,
                hashlib.md5(state(rec[-40:]).encode()).hexdigest(),
                hashlib.md5(state(rec >> 11).encode()).hexdigest(),
            )

        attempt("item {} {}".format(cls.__name__, key), report)
    attempt("registry missing {}".format(cls.__name__), lambda: reg["nothing"])
    attempt("registry contains {}".format(cls.__name__), lambda: ("nothing" in reg, keys[0] in reg))

yreg = YTKRegistry()
memfs = fs.open_fs("mem://")
for key in ("pYTK002", "pYTK038", "pYTK095"):
    buff = io.StringIO()
    write([yreg[key].entity.record], buff, "genbank")
    with memfs.open("{}.gb".format(key), "w") as f:
        f.write(buff.getvalue())
with memfs.open("junk.gb", "w") as f:
    f.write("not a genbank file")
with memfs.open("lin.gbk", "w") as f:
    buff = io.StringIO()
    rec = yreg["pYTK002"].entity.record[:]
    rec.annotations["topology"] = "linear"
    rec.annotations["molecule_type"] = "DNA"
    write([rec], buff, "genbank")
    f.write(buff.getvalue())
for base_cls in (ytk.YTKPart, ytk.YTKPart8, ytk.YTKPart1, modules.AbstractModule, vectors.AbstractVector, parts.AbstractPart, int, "x", None):
    def do():
        freg = rbase.FilesystemRegistry(memfs, base_cls)
        res = [sorted(freg), len(freg)]
        for key in sorted(freg) + ["nothing"]:
            try:
                item = freg[key]
                res.append((item.id, item.name, item.resistance, type(item.entity).__name__, type(item.record).__name__, hashlib.md5(state(item.record).encode()).hexdigest()))
            except Exception as exc:  # noqa
                res.append((key, type(exc).__name__, str(exc)))
        return res
    attempt("fsregistry {!r}".format(getattr(base_cls, "__name__", base_cls)), do)
memfs.close()

comb = rbase.CombinedRegistry() << YTKRegistry() << PTKRegistry()
out("combined", len(comb), sorted(comb)[:5], "pYTK001" in comb, "zzz" in comb)
attempt("combined missing", lambda: comb["zzz"])

for label in ("KanR", "CamR", "CmR", "KnR", "AmpR", "SmR", "SpecR", "Other"):
    rec = SeqRecord(Seq("ATGC"), id="r", features=[SeqFeature(FeatureLocation(0, 2), type="CDS", qualifiers={"label": [label]})])
    attempt("resistance {}".format(label), lambda: find_resistance(rec))
rec = SeqRecord(Seq("ATGC"), id="r", features=[SeqFeature(FeatureLocation(0, 2), type="CDS", qualifiers={"label": ["KanR", "AmpR"]})])
attempt("resistance two", lambda: find_resistance(rec))

# real assembly with citations (the YTK integration vector of the reference paper)
mods = [
    ytk.YTKPart1(yreg["pYTK008"].record),
    ytk.YTKPart234r(yreg["pYTK047"].record),
    ytk.YTKPart5(yreg["pYTK073"].record),
    ytk.YTKPart6(yreg["pYTK074"].record),
    ytk.YTKPart7(yreg["pYTK086"].record),
    ytk.YTKPart8b(yreg["pYTK092"].record),
]
vec = ytk.YTKPart8a(yreg["pYTK090"].record)
watched = [vec.record] + [mm.record for mm in mods]
snap = [state(x) for x in watched]
res = attempt("ytk assembly", lambda: vec.assemble(*mods, id="iv", name="iv"))
out("ytk assembly inputs unchanged", snap == [state(x) for x in watched])
res = attempt("ytk assembly again (re-entrant)", lambda: vec.assemble(*reversed(mods)))
out("ytk assembly inputs unchanged", snap == [state(x) for x in watched])
attempt("ytk assembly missing", lambda: vec.assemble(*mods[:-1]))
out("ytk assembly inputs unchanged", snap == [state(x) for x in watched])

# --- digest -----------------------------------------------------------------

blob = "\n".join(LINES).encode("utf-8")
if os.environ.get("EQUIV_DUMP"):
    with open(os.environ["EQUIV_DUMP"], "wb") as handle:
        handle.write(blob)
print("lines:", len(LINES))
print("digest:", hashlib.sha256(blob).hexdigest())
