# coding: utf-8
"""Differential test for the code C18 depends on.

Exercises `moclo.regex` (DNARegex.search / SeqMatch), the structured record
classes (typing, overhangs, target / placeholder sequences, `characterize`)
and `AssemblyManager` (successful and failing assemblies, citations, unused
modules) on a few hundred generated inputs and prints a digest of everything
observable: return values, exception types and messages, warnings, and the
state of the inputs afterwards.  The digest has to be identical before and
after a behaviour-preserving refactoring.
"""
import copy
import hashlib
import random
import re
import sys
import warnings

sys.path.insert(0, "/tmp/agents6/C18")
import tests  # noqa: E402,F401

from Bio.Restriction import BpiI, BsaI, BsmBI, BtsI, EcoRV, SapI  # noqa: E402
from Bio.Seq import Seq  # noqa: E402
from Bio.SeqFeature import CompoundLocation, FeatureLocation, Reference, SeqFeature  # noqa: E402
from Bio.SeqRecord import SeqRecord  # noqa: E402

from moclo import errors  # noqa: E402
from moclo.core import AbstractModule, AbstractPart, AbstractVector, Entry, CassetteVector  # noqa: E402
from moclo.core._assembly import AssemblyManager  # noqa: E402
from moclo.kits import ytk  # noqa: E402
from moclo.record import CircularRecord  # noqa: E402
from moclo.regex import DNARegex  # noqa: E402

RNG = random.Random(20180618)
LOG = []
COUNTS = {}


def note(section, *items):
    COUNTS[section] = COUNTS.get(section, 0) + 1
    LOG.append(repr((section,) + items))


# --- describing things --------------------------------------------------------


def show_location(loc):
    if loc is None:
        return None
    return [(int(p.start), int(p.end), p.strand, p.ref, p.ref_db) for p in loc.parts]


def show_value(value):
    if isinstance(value, Reference):
        return ("Reference", value.title, value.authors, show_location_list(value.location))
    if isinstance(value, (list, tuple)):
        return [show_value(v) for v in value]
    if isinstance(value, dict):
        return sorted((k, show_value(v)) for k, v in value.items())
    if isinstance(value, (Seq, SeqRecord)):
        return show(value)
    return value


def show_location_list(locs):
    return [show_location(loc) for loc in locs]


def show_feature(feature):
    return (
        feature.type,
        feature.id,
        show_location(feature.location),
        sorted((k, show_value(v)) for k, v in feature.qualifiers.items()),
    )


def show(obj):
    if isinstance(obj, SeqRecord):
        return (
            type(obj).__name__,
            str(obj.seq),
            obj.id,
            obj.name,
            obj.description,
            list(obj.dbxrefs),
            [show_feature(f) for f in obj.features],
            show_value(obj.annotations),
            show_value(dict(obj.letter_annotations)),
        )
    if isinstance(obj, Seq):
        return (type(obj).__name__, str(obj))
    return show_value(obj)


def observe(section, label, fn, *inputs):
    """Run `fn`, log result / exception / warnings and the inputs afterwards."""
    with warnings.catch_warnings(record=True) as caught:
        warnings.simplefilter("always")
        try:
            result = ("ok", show(fn()))
        except Exception as err:  # noqa
            message = re.sub(r" at 0x[0-9a-fA-F]+", " at 0x?", str(err))  # object addresses vary
            result = ("raise", type(err).__name__, message, show_value(getattr(err, "details", None)))
    warned = [(w.category.__name__, str(w.message)) for w in caught if "pkg_resources" not in str(w.message)]
    note(section, label, result, warned, [show(i) for i in inputs])
    return result


# --- building DNA ---------------------------------------------------------------


def revcomp(s):
    return str(Seq(s).reverse_complement())


SITES = {"BsaI": "GGTCTC", "BpiI": "GAAGAC", "BsmBI": "CGTCTC", "SapI": "GCTCTTC"}
SPACER = {"BsaI": 1, "BpiI": 2, "BsmBI": 1, "SapI": 1}
OVSIZE = {"BsaI": 4, "BpiI": 4, "BsmBI": 4, "SapI": 3}
CUTTERS = {"BsaI": BsaI, "BpiI": BpiI, "BsmBI": BsmBI, "SapI": SapI}
ALL_SITES = [s for site in SITES.values() for s in (site, revcomp(site))]


def filler(n, alphabet="ACGT"):
    while True:
        s = "".join(RNG.choice(alphabet) for _ in range(n))
        if not any(site in (s + s).upper() for site in ALL_SITES):
            return s


def module_text(enz, up, down, size=None, backbone=None):
    site, n = SITES[enz], SPACER[enz]
    size = RNG.randrange(1, 25) if size is None else size
    backbone = RNG.randrange(0, 20) if backbone is None else backbone
    cut = RNG.randrange(backbone + 1)
    return (
        filler(cut) + site + filler(n) + up + filler(size) + down + filler(n)
        + revcomp(site) + filler(backbone - cut)
    )


def vector_text(enz, first, last, size=None, backbone=None):
    site, n = SITES[enz], SPACER[enz]
    size = RNG.randrange(0, 20) if size is None else size
    backbone = RNG.randrange(2, 24) if backbone is None else backbone
    cut = RNG.randrange(1, backbone)
    return (
        filler(cut) + first + filler(n) + revcomp(site) + filler(size) + site
        + filler(n) + last + filler(backbone - cut)
    )


def spell(text, how):
    if how == "upper":
        return text.upper()
    if how == "lower":
        return text.lower()
    if how == "swap":
        return text.swapcase()
    return "".join(RNG.choice((c.lower(), c.upper())) for c in text)


SPELLINGS = ("upper", "lower", "mixed", "upper", "swap")


def references(n):
    refs = []
    for i in range(n):
        ref = Reference()
        ref.title = "paper %d" % i
        ref.authors = "author %d" % RNG.randrange(3)
        refs.append(ref)
    return refs


def decorate(rec, with_citations=True):
    """Add features (plain, wrapping, source, cited) to a record."""
    n = len(rec)
    if n < 6:
        return rec
    refs = references(RNG.randrange(0, 4)) if with_citations else []
    if refs:
        rec.annotations["references"] = refs
    for k in range(RNG.randrange(0, 5)):
        a = RNG.randrange(0, n - 2)
        b = RNG.randrange(a + 1, n)
        kind = RNG.choice(["CDS", "misc_feature", "promoter", "source", "rep_origin"])
        quals = {"label": ["f%d" % k]}
        if refs and RNG.random() < 0.6:
            quals["citation"] = ["[%d]" % RNG.randrange(1, len(refs) + 1) for _ in range(RNG.randrange(1, 3))]
        loc = FeatureLocation(a, b, strand=RNG.choice([1, -1, None]))
        if RNG.random() < 0.15 and b < n - 1:
            loc = CompoundLocation([FeatureLocation(b, n, strand=1), FeatureLocation(0, a + 1, strand=1)])
        if kind == "source" and RNG.random() < 0.5:
            loc = FeatureLocation(0, n)
        rec.features.append(SeqFeature(loc, type=kind, id="id%d" % k, qualifiers=quals))
    if RNG.random() < 0.2:
        rec.letter_annotations["phred_quality"] = [RNG.randrange(40) for _ in range(n)]
    return rec


def make_record(text, ident, kind="circular", rotate=0, features=True, citations=True):
    if kind == "circular":
        rec = CircularRecord(Seq(text), id=ident, name=ident + "_name", description="desc " + ident)
    elif kind == "plain":
        rec = SeqRecord(Seq(text), id=ident, name=ident + "_name")
    elif kind == "plain-circular":
        rec = SeqRecord(Seq(text), id=ident, name=ident + "_name", annotations={"topology": "Circular"})
    else:
        rec = SeqRecord(Seq(text), id=ident, name=ident + "_name", annotations={"topology": "linear"})
    if features:
        decorate(rec, citations)
    if kind == "circular" and rotate and len(rec):
        rec = rec >> rotate
    return rec


def make_classes(enz):
    cutter = CUTTERS[enz]
    mod = type(str("Mod" + enz), (AbstractModule,), {"cutter": cutter})
    vec = type(str("Vec" + enz), (AbstractVector,), {"cutter": cutter})
    return mod, vec


CLASSES = {enz: make_classes(enz) for enz in CUTTERS}


def random_overhang(k):
    while True:
        s = "".join(RNG.choice("ACGT") for _ in range(k))
        if s != revcomp(s):
            return s


def distinct_overhangs(count, k):
    found = []
    while len(found) < count:
        s = random_overhang(k)
        if s not in found and revcomp(s) not in found:
            found.append(s)
    return found


# --- 1. DNARegex / SeqMatch -----------------------------------------------------

PATTERNS = [
    "AA(NN)", "GGTCTCN(NNNN)(NN*N)(NNNN)NGAGACC", "GA*TC", "(AC)?GT", "A|C", "aa(nn)",
    "N*", "RYGATC", "GGTCTC", "CGTCTCN(NNGG)(TCTCNNNNNN*?NNNNNGA)(GACC)NGAGACG",
    "GAAT?TC", "G(A)(T*)C", "(AACG)(NGAGACCN*?GGTCTCN)(GCTG)", "N(NNNN)(NGAGACCN*GGTCTCN)(NNNN)N",
    "GC+", "G[AT]C", "(GGTCTC)*AT", "ATG(N*?)TAA", "", "(GAT)(ATC)", "ACGT$", "WSKM", "GAC??T",
]


def regex_inputs():
    plant = ["GGTCTC", "GAGACC", "GATC", "AACG", "GAATTC", "ATGAAATAA", "CGTCTCAAAGGTCTCAACGTTTTATGTGAGACCTGAGACG"]
    for _ in range(260):
        alphabet = RNG.choice(["ACGT", "acgt", "ACGTacgt", "ACGTN", "ACGTacgtnN"])
        n = RNG.choice([0, 1, 2, 5, 9, 14, 22, 37, 60])
        text = "".join(RNG.choice(alphabet) for _ in range(n))
        for _ in range(RNG.randrange(0, 3)):
            piece = spell(RNG.choice(plant), RNG.choice(SPELLINGS))
            at = RNG.randrange(len(text) + 1)
            text = text[:at] + piece + text[at:]
        if text and RNG.random() < 0.5:  # make planted sites wrap the origin
            r = RNG.randrange(len(text))
            text = text[r:] + text[:r]
        yield text


def check_regex():
    compiled = {}
    for p in PATTERNS + ["(", "A**", None, 5]:
        res = observe("regex-compile", p, lambda: (lambda r: (r.pattern, r.regex.pattern, r.regex.flags))(DNARegex(p)))
        if res[0] == "ok":
            compiled[p] = DNARegex(p)
    for text in regex_inputs():
        pattern = RNG.choice(sorted(compiled))
        regex = compiled[pattern]
        kind = RNG.choice(["seq", "plain", "circular", "seq-circ", "plain-circ", "str"])
        if kind in ("seq", "seq-circ"):
            subject = Seq(text)
        elif kind in ("plain", "plain-circ"):
            subject = make_record(text, "r", "plain")
        elif kind == "circular":
            subject = make_record(text, "r", "circular")
        else:
            subject = text
        kwargs = {}
        if kind.endswith("circ"):
            kwargs["linear"] = False
        if RNG.random() < 0.25:
            kwargs["pos"] = RNG.choice([0, 1, 3, len(text), len(text) + 2, -2])
        if RNG.random() < 0.2:
            kwargs["endpos"] = RNG.choice([0, 2, len(text) // 2, len(text), len(text) + 5])

        def run():
            m = regex.search(subject, **kwargs)
            if m is None:
                return None
            out = [m.start(), m.end(), m.span(), m.shift, m.rec is subject]
            for g in range(m.match.re.groups + 1):
                out.append(m.span(g))
                try:
                    out.append(show(m.group(g)))
                except Exception as err:  # noqa
                    out.append(("raise", type(err).__name__, str(err)))
            return out

        observe("regex-search", (pattern, kind, sorted(kwargs.items())), run, subject)


# --- 2. typing queries ---------------------------------------------------------------


def check_typing():
    for round_ in range(150):
        enz = RNG.choice(sorted(CUTTERS))
        mod_cls, vec_cls = CLASSES[enz]
        k = OVSIZE[enz]
        up, down = random_overhang(k), random_overhang(k)
        what = RNG.choice(["module", "vector", "module", "junk", "extra-site", "half"])
        if what == "module":
            text, cls = module_text(enz, up, down), mod_cls
        elif what == "vector":
            text, cls = vector_text(enz, up, down), vec_cls
        elif what == "junk":
            text, cls = filler(RNG.randrange(0, 50)), RNG.choice([mod_cls, vec_cls])
        elif what == "half":
            text, cls = filler(8) + SITES[enz] + filler(20), RNG.choice([mod_cls, vec_cls])
        else:  # a third site of the enzyme inside the module
            text = module_text(enz, up, down, size=0, backbone=6)
            inner = filler(5) + SITES[enz] + filler(6)
            text, cls = text.replace(up + down, up + inner + down, 1), mod_cls
        how = RNG.choice(SPELLINGS)
        kind = RNG.choice(["circular", "circular", "plain", "linear", "plain-circular"])
        rec = make_record(spell(text, how), "rec%d" % round_, kind, rotate=RNG.randrange(0, 40))
        entity = cls(rec)
        label = (enz, what, how, kind)
        observe("typing-valid", label, entity.is_valid, rec)
        observe("typing-valid-again", label, entity.is_valid, rec)
        observe("typing-start", label, entity.overhang_start, rec)
        observe("typing-end", label, entity.overhang_end, rec)
        observe("typing-target", label, entity.target_sequence, rec)
        if cls is vec_cls:
            observe("typing-placeholder", label, entity.placeholder_sequence, rec)
        observe("typing-structure", label, cls.structure)
    # classes that cannot be used
    for cutter in (BtsI, EcoRV, NotImplemented):
        for base in (AbstractModule, AbstractVector):
            cls = type(str("Odd"), (base,), {"cutter": cutter})
            rec = make_record(filler(30), "odd", "circular", features=False)
            observe("typing-odd", (str(cutter), base.__name__), lambda: cls(rec).is_valid(), rec)
            observe("typing-odd-structure", (str(cutter), base.__name__), cls.structure)


# --- 3. parts: signatures, characterize -------------------------------------------------


class _DemoPart(AbstractPart):
    cutter = BpiI


class DemoPartA(_DemoPart, Entry):
    signature = ("ATGC", "GGTA")


class DemoPartB(_DemoPart, Entry):
    signature = ("GGTA", "CCAT")


class DemoPartV(_DemoPart, CassetteVector):
    signature = ("CCAT", "ATGC")


def check_parts():
    for cls in (DemoPartA, DemoPartB, DemoPartV, _DemoPart, ytk.YTKPart1, ytk.YTKPart234r, ytk.YTKPart8a, ytk.YTKProduct):
        observe("part-structure", cls.__name__, cls.structure)
    signatures = {DemoPartA: ("ATGC", "GGTA"), DemoPartB: ("GGTA", "CCAT")}
    for round_ in range(60):
        how = RNG.choice(SPELLINGS)
        pick = RNG.choice(["A", "B", "V", "other", "junk"])
        if pick == "A":
            text = module_text("BpiI", *signatures[DemoPartA])
        elif pick == "B":
            text = module_text("BpiI", *signatures[DemoPartB])
        elif pick == "V":
            text = vector_text("BpiI", "ATGC", "CCAT")
        elif pick == "other":
            text = module_text("BpiI", "TTGA", "CCAT")
        else:
            text = filler(40)
        rec = make_record(spell(text, how), "p%d" % round_, "circular", rotate=RNG.randrange(30))

        def run():
            entity = _DemoPart.characterize(rec)
            return (type(entity).__name__, show(entity.overhang_start()), show(entity.overhang_end()),
                    show(entity.target_sequence()))

        observe("part-characterize", (pick, how), run, rec)
    ytk_parts = [
        (ytk.YTKPart1, "CCCT", "AACG"), (ytk.YTKPart2, "AACG", "TATG"), (ytk.YTKPart3, "TATG", "ATCC"),
        (ytk.YTKPart3a, "TATG", "TTCT"), (ytk.YTKPart4, "ATCC", "GCTG"), (ytk.YTKPart5, "GCTG", "TACA"),
        (ytk.YTKPart6, "TACA", "GAGT"), (ytk.YTKPart7, "GAGT", "CCGA"), (ytk.YTKPart8b, "CAAT", "CCCT"),
    ]
    for round_ in range(40):
        cls, up, down = RNG.choice(ytk_parts)
        how = RNG.choice(SPELLINGS)
        rec = make_record(spell(module_text("BsaI", up, down), how), "y%d" % round_, "circular", rotate=RNG.randrange(30))

        def run():
            entity = ytk.YTKPart.characterize(rec)
            return (type(entity).__name__, show(entity.overhang_start()), show(entity.overhang_end()))

        observe("part-ytk", (cls.__name__, how), run, rec)
        other = RNG.choice(ytk_parts)[0]
        observe("part-ytk-cross", (cls.__name__, other.__name__, how), other(rec).is_valid, rec)


# --- 4. assemblies ------------------------------------------------------------------------


def check_assemblies():
    for round_ in range(170):
        enz = RNG.choice(["BsaI", "BpiI", "BsmBI", "SapI", "BsaI"])
        mod_cls, vec_cls = CLASSES[enz]
        k = OVSIZE[enz]
        n = RNG.choice([1, 2, 2, 3, 4, 5])
        ovs = distinct_overhangs(n + 2, k)
        chain = [(ovs[i], ovs[i + 1]) for i in range(n)]
        first, last = ovs[0], ovs[n]
        scenario = RNG.choice([
            "fine", "fine", "fine", "fine", "missing", "duplicate", "revcomp", "unused", "same-overhangs",
            "bad-module", "illegal-site", "bad-citation", "plain-module", "shuffled",
        ])
        if scenario == "missing" and n > 1:
            del chain[RNG.randrange(len(chain))]
        elif scenario == "duplicate":
            chain.append((chain[RNG.randrange(len(chain))][0], ovs[n + 1]))
        elif scenario == "revcomp":
            chain.append((revcomp(chain[RNG.randrange(len(chain))][0]), ovs[n + 1]))
        elif scenario == "unused":
            chain.append((ovs[n + 1], random_overhang(k)))
        elif scenario == "same-overhangs":
            last = first
        texts = [module_text(enz, up, down) for up, down in chain]
        if scenario == "bad-module":
            texts[RNG.randrange(len(texts))] = filler(30)
        elif scenario == "illegal-site":
            i = RNG.randrange(len(texts))
            up, down = chain[i]
            texts[i] = module_text(enz, up, down, size=0, backbone=4).replace(
                up + down, up + filler(4) + SITES[enz] + filler(5) + down, 1)
        if scenario == "shuffled" or RNG.random() < 0.3:
            order = list(range(len(texts)))
            RNG.shuffle(order)
            texts = [texts[i] for i in order]
        hows = [RNG.choice(SPELLINGS) for _ in range(len(texts) + 1)]
        if RNG.random() < 0.3:
            hows = [hows[0]] * len(hows)
        vec_rec = make_record(spell(vector_text(enz, first, last), hows[0]), "vec%d" % round_, "circular",
                              rotate=RNG.randrange(40))
        mod_recs = []
        for i, (text, how) in enumerate(zip(texts, hows[1:])):
            kind = "plain" if scenario == "plain-module" and i == 0 else "circular"
            mod_recs.append(make_record(spell(text, how), "m%d_%d" % (round_, i), kind, rotate=RNG.randrange(40)))
        if scenario == "bad-citation":
            rec = RNG.choice(mod_recs + [vec_rec])
            rec.features.append(SeqFeature(FeatureLocation(0, 1), type="misc_feature",
                                           qualifiers={"citation": [RNG.choice(["(1)", "[]", "[9]", "[0]", "x"])]}))
        kwargs = RNG.choice([{}, {}, {"id": "construct%d" % round_}, {"name": "N%d" % round_, "id": "I%d" % round_}])

        def run():
            vector = vec_cls(vec_rec)
            modules = [mod_cls(rec) for rec in mod_recs]
            return vector.assemble(*modules, **kwargs)

        observe("assembly", (enz, scenario, n, hows), run, vec_rec, *mod_recs)
        if round_ % 7 == 0:  # assembling twice from the same objects
            observe("assembly-again", (enz, scenario, n), run, vec_rec, *mod_recs)
    # unused modules turned into errors, manager used directly
    for round_ in range(12):
        enz = "BsaI"
        mod_cls, vec_cls = CLASSES[enz]
        ovs = distinct_overhangs(4, 4)
        how = RNG.choice(SPELLINGS)
        vec_rec = make_record(spell(vector_text(enz, ovs[0], ovs[2]), how), "v", "circular")
        mod_recs = [make_record(spell(module_text(enz, a, b), RNG.choice(SPELLINGS)), "m%d" % i, "circular")
                    for i, (a, b) in enumerate([(ovs[0], ovs[1]), (ovs[1], ovs[2]), (ovs[3], ovs[0])][: 2 + round_ % 2])]

        def run():
            with warnings.catch_warnings():
                warnings.simplefilter("error", errors.AssemblyWarning)
                mgr = AssemblyManager(vec_cls(vec_rec), [mod_cls(r) for r in mod_recs], id_="x", name="y")
                return (mgr.id, mgr.name, len(mgr.elements), mgr.assemble())

        observe("assembly-manager", (how, len(mod_recs)), run, vec_rec, *mod_recs)


def check_ytk():
    parts = [
        (ytk.YTKPart1, "CCCT", "AACG"), (ytk.YTKPart2, "AACG", "TATG"), (ytk.YTKPart3, "TATG", "ATCC"),
        (ytk.YTKPart4, "ATCC", "GCTG"), (ytk.YTKPart5, "GCTG", "TACA"),
    ]
    for round_ in range(25):
        chosen = list(parts)
        scenario = RNG.choice(["fine", "fine", "drop", "twice"])
        if scenario == "drop":
            del chosen[RNG.randrange(len(chosen))]
        elif scenario == "twice":
            chosen.append(RNG.choice(parts))
        hows = [RNG.choice(SPELLINGS) for _ in range(len(chosen) + 1)]
        vec_rec = make_record(spell(vector_text("BsaI", "CCCT", "TACA"), hows[0]), "pYTK095", "circular",
                              rotate=RNG.randrange(30))
        mod_recs = [make_record(spell(module_text("BsaI", up, down), how), "part%d" % i, "circular", rotate=RNG.randrange(30))
                    for i, ((cls, up, down), how) in enumerate(zip(chosen, hows[1:]))]

        def run():
            return ytk.YTKPart678(vec_rec).assemble(*[cls(rec) for (cls, _, _), rec in zip(chosen, mod_recs)])

        observe("ytk-assembly", (scenario, hows), run, vec_rec, *mod_recs)


# --- 5. how the classes are put together ----------------------------------------------------


def check_classes():
    import abc
    import inspect

    import six

    from moclo._utils import isabstract
    from moclo.core._structured import StructuredRecord
    from moclo.kits import cidar, ecoflex, moclo as moclo_kit, plant

    class Free(StructuredRecord):
        @classmethod
        def structure(cls):
            return "AT(NN)(N*)(GC)TT"

    class Parent(AbstractModule):
        cutter = BsaI

    class Child(Parent):
        @staticmethod
        def structure():
            return "GGTCTCN(AATG)(NN*N)(GCTT)NGAGACC"

    class OtherEnzyme(Parent):
        cutter = BpiI

    @six.add_metaclass(abc.ABCMeta)
    class Meta(Parent):
        cutter = BsmBI

    class GrandChild(Child, Meta):
        pass

    family = [Free, Parent, Child, OtherEnzyme, Meta, GrandChild]
    texts = {
        "free": "CCATGGAAAGCTTCC",
        "free-site": "CCATGGGGTCTCAGCTTCC",
        "bsai": module_text("BsaI", "CCCT", "AACG"),
        "bsai-child": module_text("BsaI", "AATG", "GCTT"),
        "bpii": module_text("BpiI", "CCCT", "AACG"),
        "bsmbi": module_text("BsmBI", "CCCT", "AACG"),
        "bsmbi-child": module_text("BsmBI", "AATG", "GCTT"),
    }
    # typing order must not matter: parents first, then children first
    for order in (family, family[::-1], family):
        fresh = [type(str(c.__name__), (c,), {}) for c in order]
        for cls in order + fresh:
            for key in sorted(texts):
                how = RNG.choice(SPELLINGS)
                rec = make_record(spell(texts[key], how), key, "circular", rotate=RNG.randrange(20), features=False)

                def run():
                    entity = cls(rec)
                    first = entity.is_valid()
                    again = entity.is_valid()
                    spans = [entity._match.span(g) for g in range(4)] if first else None
                    del_ok = None
                    if first:
                        del entity._match
                        del_ok = [entity._match.span(g) for g in range(4)] == spans
                    return (first, again, spans, del_ok, cls._get_regex().pattern, cls._get_regex() is cls._get_regex())

                observe("class-family", (cls.__name__, key, how), run, rec)
    observe("class-regex-own", "", lambda: [
        (a.__name__, b.__name__, a._get_regex() is b._get_regex()) for a in family for b in family if a is not b
    ])
    for kit in (ytk, cidar, ecoflex, moclo_kit, plant):
        for name in sorted(vars(kit)):
            cls = getattr(kit, name)
            if not (inspect.isclass(cls) and issubclass(cls, StructuredRecord)):
                continue
            observe("class-kit-abstract", (kit.__name__, name), lambda: (isabstract(cls), inspect.isabstract(cls)))
            observe("class-kit-structure", (kit.__name__, name), cls.structure)
            rec = make_record(spell(module_text("BsaI", "AACG", "TATG"), RNG.choice(SPELLINGS)), "k", "circular", features=False)
            observe("class-kit-typing", (kit.__name__, name), lambda: cls(rec).is_valid(), rec)
    for cls in (AbstractPart, AbstractModule, AbstractVector, Entry, CassetteVector, StructuredRecord, _DemoPart, DemoPartA):
        observe("class-core-abstract", cls.__name__, lambda: (isabstract(cls), inspect.isabstract(cls)))
        rec = make_record(filler(30), "c", "circular", features=False)
        observe("class-core-new", cls.__name__, lambda: type(cls(rec)).__name__, rec)


check_regex()
check_typing()
check_parts()
check_assemblies()
check_ytk()
check_classes()

digest = hashlib.sha256("\n".join(LOG).encode("utf-8")).hexdigest()
outcomes = {}
for line in LOG:
    key = "raise" if "('raise'" in line else "ok"
    outcomes[key] = outcomes.get(key, 0) + 1
print("observations:", len(LOG), sorted(COUNTS.items()))
print("with an exception somewhere:", outcomes.get("raise", 0), "without:", outcomes.get("ok", 0))
if "--dump" in sys.argv:
    with open(sys.argv[sys.argv.index("--dump") + 1], "w") as handle:
        handle.write("\n".join(LOG))
print("digest:", digest)
