# coding: utf-8
"""C08 differential test.

Exercises CircularRecord (construction, rotation, slicing, containment,
reverse complement), the helpers of moclo.core._utils, the module / vector
fragment extraction and whole assemblies (successful and failing, with
citations, mixed case, two enzymes, plain SeqRecord inputs, every kind of
feature location) on generated inputs, and prints a digest of every result,
exception (type and message), warning (category and message) and of the state
of the inputs afterwards.  Pass ``-v`` to dump the individual lines.
"""
import hashlib
import random
import re
import sys
import warnings

sys.path.insert(0, "/tmp/agents5/C08")
import tests  # noqa: F401,E402

from Bio.Restriction import BpiI, BsaI, EcoRI, SmaI  # noqa: E402
from Bio.Seq import Seq  # noqa: E402
from Bio.SeqRecord import SeqRecord  # noqa: E402
from Bio.SeqFeature import (  # noqa: E402
    SeqFeature, FeatureLocation, CompoundLocation, Reference,
    BeforePosition, AfterPosition,
)

from moclo.record import CircularRecord  # noqa: E402
from moclo.core import modules as _modules, vectors as _vectors  # noqa: E402
from moclo.core import _utils as core_utils  # noqa: E402
from moclo.core._assembly import AssemblyManager  # noqa: E402

LINES = []


def out(*items):
    line = " | ".join(str(i) for i in items)
    LINES.append(re.sub(r" at 0x[0-9a-f]+", " at 0x?", line))


# --- describing things ---------------------------------------------------------

def d_loc(loc):
    if loc is None:
        return "None"
    parts = [
        "{}({!r}..{!r},{!r},{!r},{!r})".format(
            type(p).__name__, p.start, p.end, p.strand, p.ref, p.ref_db)
        for p in loc.parts
    ]
    op = getattr(loc, "operator", "-")
    return "{}:{}[{}]".format(type(loc).__name__, op, ";".join(parts))


def d_val(v):
    if isinstance(v, Reference):
        return "Ref<{}|{}|{}>".format(v.title, v.authors, [d_loc(l) for l in v.location])
    if isinstance(v, list):
        return "[" + ",".join(d_val(x) for x in v) + "]"
    if isinstance(v, dict):
        return "{" + ",".join("{}={}".format(k, d_val(v[k])) for k in v) + "}"
    return repr(v)


def d_feat(f):
    return "F({},{},{},{})".format(f.type, f.id, d_loc(f.location), d_val(dict(f.qualifiers)))


def d_rec(r):
    if not isinstance(r, SeqRecord):
        return "{}:{!r}".format(type(r).__name__, r)
    return "{}(seq={},id={},name={},desc={},dbx={},ann={},let={},feats=[{}])".format(
        type(r).__name__, str(r.seq), r.id, r.name, r.description, r.dbxrefs,
        d_val(dict(r.annotations)), d_val(dict(r.letter_annotations)),
        ";".join(d_feat(f) for f in r.features))


def attempt(label, func, watch=()):
    """Run func, log result or exception, the warnings and the watched inputs."""
    with warnings.catch_warnings(record=True) as caught:
        warnings.simplefilter("always")
        try:
            res = func()
            out(label, "OK", d_rec(res) if not isinstance(res, (tuple, list)) else
                [d_rec(x) for x in res])
        except Exception as e:  # noqa
            res = None
            out(label, "EXC", type(e).__name__, str(e), type(e.__cause__).__name__,
                getattr(e, "__suppress_context__", None))
    for w in caught:
        if "pkg_resources" in str(w.message):
            continue
        out(label, "WARN", w.category.__name__, str(w.message))
    for i, rec in enumerate(watch):
        out(label, "INPUT", i, d_rec(rec))
    return res


# --- toy kits ------------------------------------------------------------------

class BpiVector(_vectors.EntryVector):
    cutter = BpiI


class BpiModule(_modules.Product):
    cutter = BpiI


class BsaVector(_vectors.CassetteVector):
    cutter = BsaI


class BsaModule(_modules.Entry):
    cutter = BsaI


KITS = {
    "BpiI": (BpiVector, BpiModule, "GAAGAC", "GTCTTC", 2),
    "BsaI": (BsaVector, BsaModule, "GGTCTC", "GAGACC", 1),
}
FORBIDDEN = ("GAAGAC", "GTCTTC", "GGTCTC", "GAGACC")


def junk(rng, n):
    while True:
        s = "".join(rng.choice("ACGT") for _ in range(n))
        if any(site in "TT" + s + "TT" for site in FORBIDDEN):
            continue
        if any(s.endswith(site[:k]) or s.startswith(site[-k:])
               for site in FORBIDDEN for k in range(1, 6)):
            continue
        return s


def make_module(rng, kit, oh_start, oh_end, n_target, n_before, n_after, extra=""):
    _, _, site, rsite, gap = KITS[kit]
    return ("A" + junk(rng, n_before) + "A" + site + "A" * gap + oh_start
            + "T" + junk(rng, n_target) + extra + "T"
            + oh_end + "T" * gap + rsite + "A" + junk(rng, n_after) + "A")


def make_vector(rng, kit, oh_first, oh_last, n_place, n_before, n_after, extra=""):
    _, _, site, rsite, gap = KITS[kit]
    return ("A" + junk(rng, n_before) + "AT" + oh_first + "T" * gap + rsite
            + "A" + junk(rng, n_place) + extra + "A" + site + "A" * gap + oh_last
            + "TA" + junk(rng, n_after) + "A")


def mixed_case(rng, s):
    return "".join(c.lower() if rng.random() < 0.4 else c for c in s)


def rand_location(rng, length, allow_weird=True):
    kind = rng.choice(["simple", "simple", "over", "join", "join3", "joinwrap", "fuzzy", "ref"]
                      if allow_weird else ["simple", "over", "join", "joinwrap"])
    strand = rng.choice([1, -1, 0, None])
    a = rng.randrange(length)
    if kind == "simple":
        b = rng.randint(a, length)
        return FeatureLocation(a, b, strand)
    if kind == "over":
        return FeatureLocation(a, a + rng.randint(length - a, length), strand)
    if kind == "fuzzy":
        b = rng.randint(a, length)
        return FeatureLocation(BeforePosition(a), AfterPosition(b), strand)
    if kind == "ref":
        b = rng.randint(a, length)
        return FeatureLocation(a, b, strand, ref="XY1234.1", ref_db=rng.choice([None, "db"]))
    if kind == "joinwrap":
        parts = [FeatureLocation(a, length, strand),
                 FeatureLocation(0, rng.randint(1, max(1, a)), strand)]
    else:
        cuts = sorted(rng.sample(range(length + 1), 4 if kind == "join" or length < 6 else 6))
        parts = [FeatureLocation(cuts[i], cuts[i + 1], strand) for i in range(0, len(cuts), 2)]
    if strand == -1:
        parts = parts[::-1]
    return CompoundLocation(parts, rng.choice(["join", "join", "order"]))


def rand_features(rng, length, n, with_citations=0, allow_weird=True, allow_none=False):
    feats = []
    for i in range(n):
        quals = {"label": ["f{}".format(i)]}
        if rng.random() < 0.3:
            quals["note"] = ["n{}".format(rng.randrange(9)), "second"]
        if with_citations and rng.random() < 0.6:
            quals["citation"] = ["[{}]".format(rng.randint(1, with_citations))
                                 for _ in range(rng.randint(1, 2))]
        type_ = rng.choice(["CDS", "gene", "misc_feature", "source", "promoter"])
        feats.append(SeqFeature(rand_location(rng, length, allow_weird), type=type_,
                                id=rng.choice(["<unknown id>", "id{}".format(i)]),
                                qualifiers=quals))
    roll = rng.random()
    if roll < 0.25:
        feats.append(SeqFeature(FeatureLocation(0, length, 1), type="source",
                                qualifiers={"label": ["whole"]}))
    elif roll < 0.4:
        feats.append(SeqFeature(FeatureLocation(0, rng.randint(1, length)), type="source",
                                qualifiers={"label": ["source from zero"]}))
    elif roll < 0.5:
        feats.append(SeqFeature(
            CompoundLocation([FeatureLocation(0, 3, 1), FeatureLocation(length - 4, length, 1)]),
            type="source", qualifiers={"label": ["joined source"]}))
    elif roll < 0.6:
        feats.append(SeqFeature(FeatureLocation(rng.randint(1, 3), length), type="source"))
    elif roll < 0.7 and allow_none:
        feats.append(SeqFeature(None, type="misc_feature", qualifiers={"label": ["nowhere"]}))
    return feats


def references(n):
    refs = []
    for i in range(n):
        r = Reference()
        r.title = "Paper {}".format(i)
        r.authors = "Author {}".format(i)
        refs.append(r)
    return refs


def rand_record(rng, seq, ident, cls=CircularRecord, n_feats=6, n_refs=0, letters=False,
                topology=None, allow_weird=True, allow_none=False):
    annotations = {}
    if n_refs:
        annotations["references"] = references(n_refs)
    if topology is not None:
        annotations["topology"] = topology
    if rng.random() < 0.5:
        annotations["molecule_type"] = "DNA"
    rec = cls(Seq(seq), id=ident, name=ident + "_name", description="desc " + ident,
              dbxrefs=["db:" + ident] if rng.random() < 0.5 else [],
              features=rand_features(rng, len(seq), n_feats, n_refs, allow_weird, allow_none),
              annotations=annotations)
    if letters:
        rec.letter_annotations["phred_quality"] = [rng.randrange(40) for _ in seq]
        rec.letter_annotations["tag"] = "".join(rng.choice("xyz") for _ in seq)
    return rec


# --- 1. CircularRecord ---------------------------------------------------------

def section_record(rng):
    for n in range(60):
        length = rng.choice([4, 7, 12, 30, 45])
        seq = mixed_case(rng, "".join(rng.choice("ACGT") for _ in range(length)))
        rec = rand_record(rng, seq, "r{}".format(n), letters=n % 3 == 0, n_feats=rng.randint(0, 7),
                          topology=rng.choice([None, "circular", "Circular"]), allow_none=True)
        indices = [0, 1, -1, length - 1, length, length + 2, -length - 3, 3 * length + 1,
                   rng.randrange(length), -rng.randrange(length)]
        for idx in indices:
            label = "rot r{} >> {}".format(n, idx)
            res = attempt(label, lambda: rec >> idx, watch=[rec])
            if res is not None:
                out(label, "same object", res is rec, "shared quals",
                    [a.qualifiers is b.qualifiers for a, b in zip(rec.features, res.features)],
                    "shared locs", [a.location is b.location for a, b in zip(rec.features, res.features)],
                    "ann shared", res.annotations is rec.annotations, res.dbxrefs is rec.dbxrefs)
            label = "rot r{} << {}".format(n, idx)
            res = attempt(label, lambda: rec << idx, watch=[rec])
            if res is not None:
                twice = attempt(label + " then >> 5", lambda: res >> 5)
                attempt(label + " slice", lambda: res[1: max(2, length - 2)], watch=[res])
                del twice
        a, b = sorted(rng.sample(range(length + 1), 2))
        for sl in [slice(a, b), slice(None, b), slice(a, None), slice(None, None),
                   slice(b, a), slice(a, b, 2), slice(-3, None)]:
            res = attempt("slice r{} [{}]".format(n, sl), lambda: rec[sl], watch=[rec])
            if res is not None:
                out("slice ids", res.annotations is rec.annotations, type(res).__name__)
        attempt("item r{}".format(n), lambda: SeqRecord(Seq(rec[a % length])))
        attempt("item r{} oob".format(n), lambda: rec[length + 3])
        attempt("revcomp r{}".format(n), lambda: rec.reverse_complement(), watch=[rec])
        attempt("revcomp2 r{}".format(n), lambda: rec.reverse_complement(id=True, annotations=True),
                watch=[rec])
        probe = str((rec.seq + rec.seq)[length - 2: length + 2])
        out("contains", n, probe in rec, probe.upper() in rec, str(rec.seq) * 2 in rec,
            "" in rec)
        attempt("add r{}".format(n), lambda: rec + rec)
        attempt("radd r{}".format(n), lambda: "ACGT" + rec)
        attempt("copy r{}".format(n), lambda: CircularRecord(rec), watch=[rec])
    lin = SeqRecord(Seq("ACGTACGT"), id="lin", annotations={"topology": "linear"},
                    features=[SeqFeature(FeatureLocation(1, 4, -1), type="CDS")])
    attempt("linear ctor", lambda: CircularRecord(lin), watch=[lin])
    attempt("linear ctor kw", lambda: CircularRecord(Seq("ACGT"), annotations={"topology": "LINEAR"}))
    attempt("circ ctor kw", lambda: CircularRecord(Seq("ACGT"), annotations={"topology": "CIRCULAR"}))
    attempt("no topology", lambda: CircularRecord(Seq("ACGT"), annotations={"x": 1}))
    attempt("bad topology", lambda: CircularRecord(Seq("ACGT"), annotations={"topology": None}))
    attempt("empty rot", lambda: CircularRecord(Seq("")) >> 1)
    plain = SeqRecord(Seq("ACGTTGCA"), id="plain", features=[
        SeqFeature(FeatureLocation(2, 5, 1), type="gene", qualifiers={"label": ["g"]})])
    circ = attempt("from plain", lambda: CircularRecord(plain), watch=[plain])
    out("deep", circ.features[0] is plain.features[0],
        circ.features[0].qualifiers is plain.features[0].qualifiers)


# --- 2. core helpers ---------------------------------------------------------

def section_utils(rng):
    for cutter, name in [(NotImplemented, "Nope"), (EcoRI, "Eco"), (SmaI, "Sma"), (BsaI, "Bsa")]:
        attempt("cutter_check " + name,
                lambda: SeqRecord(Seq(str(core_utils.cutter_check(cutter, name=name)))))
    for n in range(12):
        src = rand_record(rng, junk(rng, 12), "src{}".format(n), n_feats=1)
        dst = rand_record(rng, junk(rng, 9), "dst{}".format(n), cls=SeqRecord, n_feats=2)
        loc = rng.choice([None, FeatureLocation(2, 5, 1), FeatureLocation(3, 3)])
        res = attempt("add_as_source {}".format(n),
                      lambda: core_utils.add_as_source(src, dst, loc), watch=[src, dst])
        out("returns dst", res is dst)
        res = attempt("add_as_source pos {}".format(n),
                      lambda: core_utils.add_as_source(src, dst), watch=[src, dst])


# --- 3. fragments and assemblies -----------------------------------------------

def describe_structured(label, obj, rec):
    attempt(label + " valid", lambda: SeqRecord(Seq(str(obj.is_valid()))))
    attempt(label + " oh_start", lambda: SeqRecord(obj.overhang_start()))
    attempt(label + " oh_end", lambda: SeqRecord(obj.overhang_end()))
    attempt(label + " target", lambda: obj.target_sequence(), watch=[rec])
    attempt(label + " target again", lambda: obj.target_sequence(), watch=[rec])
    if hasattr(obj, "placeholder_sequence"):
        attempt(label + " placeholder", lambda: obj.placeholder_sequence(), watch=[rec])


def section_assemblies(rng):
    ohs_sets = [["AACG", "CTGA", "TGCC", "GATT"], ["GGAT", "TACA", "CCTG", "ATAG"]]
    case = 0
    for kit in ("BpiI", "BsaI"):
        vcls, mcls, site, rsite, gap = KITS[kit]
        for design in range(8):
            ohs = ohs_sets[design % 2]
            n_mods = 1 + design % 3
            n_refs = [0, 2, 3][design % 3]
            vseq = make_vector(rng, kit, ohs[0], ohs[n_mods], 8 + design, 6, 9)
            mseqs = [make_module(rng, kit, ohs[i], ohs[i + 1], 9 + i, 5, 6) for i in range(n_mods)]
            if design % 4 == 1:
                vseq = mixed_case(rng, vseq)
                mseqs = [mixed_case(rng, s) for s in mseqs]
            for trial in range(7):
                case += 1
                rots = [rng.randrange(len(vseq))] + [rng.randrange(len(s)) for s in mseqs]
                if trial == 0:
                    rots = [0] * (n_mods + 1)
                if trial == 1:   # the site itself wraps around the origin
                    rots = [len(vseq) - vseq.upper().index(rsite) - 3] + \
                           [len(s) - s.upper().index(site) - 2 for s in mseqs]
                vrec = rand_record(rng, vseq, "vec{}".format(case), n_refs=n_refs,
                                   letters=trial == 3, allow_weird=trial != 2) >> rots[0]
                mrecs = [rand_record(rng, s, "mod{}_{}".format(case, i), n_refs=(n_refs + i) % 4,
                                     letters=trial == 3, allow_weird=trial != 2) >> r
                         for i, (s, r) in enumerate(zip(mseqs, rots[1:]))]
                if trial == 4:
                    for r in mrecs + [vrec]:
                        r.annotations["topology"] = "circular"
                vector = vcls(vrec)
                mods = [mcls(r) for r in mrecs]
                label = "asm {} d{} t{}".format(kit, design, trial)
                if trial == 5:
                    for i, m in enumerate(mods):
                        describe_structured(label + " mod{}".format(i), m, m.record)
                    describe_structured(label + " vec", vector, vrec)
                order = list(mods)
                rng.shuffle(order)
                kwargs = {} if trial % 2 else {"id": "prod{}".format(case), "name": "P{}".format(case)}
                res = attempt(label, lambda: vector.assemble(*order, **kwargs), watch=mrecs + [vrec])
                if res is not None and trial == 6:
                    # the product is a valid input in turn
                    attempt(label + " rotated product", lambda: res >> 11, watch=[res])

    # failing or warning assemblies
    rng2 = random.Random(2424)
    for kit in ("BpiI", "BsaI"):
        vcls, mcls, site, rsite, gap = KITS[kit]
        ohs = ["AACG", "CTGA", "TGCC", "GATT"]
        for n in range(6):
            vseq = make_vector(rng2, kit, ohs[0], ohs[2], 8, 6, 9)
            m1 = make_module(rng2, kit, ohs[0], ohs[1], 9, 5, 6)
            m2 = make_module(rng2, kit, ohs[1], ohs[2], 10, 5, 6)
            m2b = make_module(rng2, kit, ohs[1].lower(), ohs[2], 7, 4, 6)
            m3 = make_module(rng2, kit, ohs[2], ohs[3], 8, 5, 6)
            mrc = make_module(rng2, kit, str(Seq(ohs[0]).reverse_complement()), ohs[3], 8, 5, 6)
            bad_v = make_vector(rng2, kit, ohs[0], ohs[0], 8, 6, 9)
            ill_m = make_module(rng2, kit, ohs[0], ohs[1], 6, 5, 6, extra="C" + site + "C")
            ill_v = make_vector(rng2, kit, ohs[0], ohs[2], 6, 6, 9, extra="C" + rsite + "C")

            def R(seq, ident, cls=CircularRecord, **kw):
                return rand_record(rng2, seq, ident, cls=cls, n_refs=n % 3, **kw) \
                    if cls is SeqRecord else \
                    rand_record(rng2, seq, ident, cls=cls, n_refs=n % 3, **kw) >> rng2.randrange(len(seq))

            scenarios = [
                ("missing", vseq, [R(m1, "m1")]),
                ("missing first", vseq, [R(m2, "m2")]),
                ("duplicate", vseq, [R(m1, "m1"), R(m2, "m2"), R(m2b, "m2b")]),
                ("revcomp", vseq, [R(m1, "m1"), R(m2, "m2"), R(mrc, "mrc")]),
                ("unused", vseq, [R(m1, "m1"), R(m2, "m2"), R(m3, "m3")]),
                ("bad vector", bad_v, [R(m1, "m1")]),
                ("illegal module", vseq, [R(ill_m, "ill"), R(m2, "m2")]),
                ("illegal vector", ill_v, [R(m1, "m1"), R(m2, "m2")]),
                ("not a module", vseq, [R(junk(rng2, 30), "junk"), R(m2, "m2")]),
                ("plain module", vseq, [R(m1, "m1", cls=SeqRecord), R(m2, "m2")]),
                ("plain second", vseq, [R(m1, "m1"), R(m2, "m2", cls=SeqRecord)]),
                ("linear module", vseq, [R(m1, "m1", cls=SeqRecord, topology="linear"), R(m2, "m2")]),
                ("bad citation", vseq, [R(m1, "m1"), R(m2, "m2")]),
                ("citation out of range", vseq, [R(m1, "m1"), R(m2, "m2")]),
            ]
            for name, vs, mrecs in scenarios:
                vrec = R(vs, "v")
                if name == "bad citation":
                    mrecs[1].features.append(SeqFeature(FeatureLocation(0, 2), type="CDS",
                                                        qualifiers={"citation": ["(1)"]}))
                if name == "citation out of range":
                    vrec.features.insert(0, SeqFeature(FeatureLocation(0, 2), type="CDS",
                                                       qualifiers={"citation": ["[7]"]}))
                label = "fail {} {} {}".format(kit, n, name)
                attempt(label, lambda: vcls(vrec).assemble(*[mcls(r) for r in mrecs]),
                        watch=mrecs + [vrec])
            if n == 0:
                mods = [mcls(R(m1, "m1")), mcls(R(m2, "m2"))]
                attempt("manager " + kit, lambda: AssemblyManager(
                    vcls(R(vseq, "v")), mods, id_="x", name="y").assemble())
                attempt("other kit " + kit, lambda: vcls(R(vseq, "v")).assemble(
                    *[(BsaModule if kit == "BpiI" else BpiModule)(m.record) for m in mods]))

    class NoCutterVector(_vectors.EntryVector):
        pass

    class BluntModule(_modules.Product):
        cutter = SmaI

    attempt("no cutter", lambda: NoCutterVector(CircularRecord(Seq("ACGT"))).record)
    attempt("blunt", lambda: BluntModule(CircularRecord(Seq("ACGT"))).record)
    out("structures", BpiVector.structure(), BpiModule.structure(),
        BsaVector.structure(), BsaModule.structure())


def main():
    rng = random.Random(80802)
    section_record(rng)
    section_utils(rng)
    section_assemblies(rng)
    if "-v" in sys.argv:
        for line in LINES:
            print(line)
    digest = hashlib.sha256("\n".join(LINES).encode("utf-8")).hexdigest()
    kinds = {}
    for line in LINES:
        parts = line.split(" | ")
        if len(parts) > 1:
            kinds[parts[1]] = kinds.get(parts[1], 0) + 1
    print("lines={} ok={} exc={} warn={}".format(
        len(LINES), kinds.get("OK", 0), kinds.get("EXC", 0), kinds.get("WARN", 0)))
    print("DIGEST", digest)


if __name__ == "__main__":
    main()
