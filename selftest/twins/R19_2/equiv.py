# coding: utf-8
"""Differential test for the rewrite of `CombinedRegistry.add_registry`."""
import sys

sys.path.insert(0, "/tmp/agentsR4/R19")
import tests  # noqa: E402,F401

import collections.abc  # noqa: E402
import hashlib  # noqa: E402
import os  # noqa: E402
import random  # noqa: E402
import warnings  # noqa: E402

warnings.simplefilter("ignore")

from moclo.registry.base import CombinedRegistry, Item, AbstractRegistry  # noqa: E402
from tests._utils import build_registries  # noqa: E402

ROOT = "/tmp/agentsR4/R19"
RESULTS = []


class FakeEntity(object):
    def __init__(self, tag):
        self.tag = tag
        self.record = ("record", tag)

    def __repr__(self):
        return "FakeEntity({!r})".format(self.tag)


class ListRegistry(AbstractRegistry):
    """A user-defined registry whose keys need not be the item identifiers."""

    def __init__(self, pairs, fail_after=None):
        self.pairs = list(pairs)
        self.fail_after = fail_after
        self.log = []

    def __getitem__(self, key):
        self.log.append(("get", key))
        for k, v in self.pairs:
            if k == key:
                return v
        raise KeyError(key)

    def __iter__(self):
        for n, (k, _) in enumerate(self.pairs):
            if self.fail_after is not None and n >= self.fail_after:
                raise OSError("registry went away after {} items".format(n))
            self.log.append(("iter", k))
            yield k

    def __len__(self):
        return len(self.pairs)


class NoValues(object):
    pass


def snapshot(combined, universe):
    out = {
        "order": list(combined),
        "len": len(combined),
        "items": [(k, v.id, v.name, v.resistance, repr(v.entity)) for k, v in combined.items()],
        "contains": [k for k in universe if k in combined],
    }
    for probe in ("missing", "", 0, None, ("t",)):
        try:
            out[repr(probe)] = repr(combined[probe])
        except Exception as err:
            out[repr(probe)] = (type(err).__name__, str(err))
    return out


def attempt(tag, func, *args):
    try:
        out = ("ok", func(*args))
    except BaseException as err:
        out = ("raise", type(err).__name__, str(err))
    RESULTS.append((tag, out if out[0] == "raise" else ("ok", repr(type(out[1])))))
    return out


def random_registry(rng, serial):
    ids = ["id{}".format(rng.randrange(25)) for _ in range(rng.randrange(0, 12))]
    if rng.random() < 0.2:
        ids += [rng.choice(["", "ID1", "Id1", "id1 ", 7, None, ("t",), 3.0, 3])]
    pairs = []
    for n, ident in enumerate(ids):
        item = Item(id=ident, name="name{}-{}".format(serial, n),
                    entity=FakeEntity((serial, n)), resistance=rng.choice(["Kanamycin", "Ampicillin"]))
        # keys of the source mapping are deliberately not always the item id
        key = ident if rng.random() < 0.7 else "key{}-{}".format(serial, n)
        pairs.append((key, item))
    kind = rng.randrange(4)
    if kind == 0:
        return dict(pairs)
    if kind == 1:
        return ListRegistry(pairs)
    if kind == 2 and pairs:
        return ListRegistry(pairs, fail_after=rng.randrange(len(pairs) + 1))
    return collections.OrderedDict(pairs)


def main():
    rng = random.Random(190002)
    universe = ["id{}".format(i) for i in range(25)] + ["", "ID1", 7, None, 3]

    for trial in range(400):
        combined = CombinedRegistry()
        sources = [random_registry(rng, (trial, k)) for k in range(rng.randrange(0, 6))]
        for k, source in enumerate(sources):
            data_before = combined._data
            if rng.random() < 0.5:
                out = attempt((trial, k, "lshift"), combined.__lshift__, source)
                if out[0] == "ok":
                    RESULTS.append((trial, k, "returns self", out[1] is combined))
            else:
                out = attempt((trial, k, "add"), combined.add_registry, source)
                if out[0] == "ok":
                    RESULTS.append((trial, k, "returns None", out[1] is None))
            RESULTS.append((trial, k, "same dict", combined._data is data_before))
            RESULTS.append((trial, k, snapshot(combined, universe)))
            if isinstance(source, ListRegistry):
                RESULTS.append((trial, k, "log", list(source.log)))
                RESULTS.append((trial, k, "source untouched", [(a, b.id, b.name) for a, b in source.pairs]))
            elif isinstance(source, dict):
                RESULTS.append((trial, k, "source untouched", [(a, b.id, b.name) for a, b in source.items()]))
        # identity: the first registered item wins
        winners = []
        for key in combined:
            for k, source in enumerate(sources):
                values = source.values() if not isinstance(source, ListRegistry) else [v for _, v in source.pairs]
                if any(v is combined[key] for v in values):
                    winners.append((key, k))
                    break
        RESULTS.append((trial, "winners", winners))
        # adding to itself and re-adding a source changes nothing
        attempt((trial, "self"), combined.add_registry, combined)
        if sources:
            attempt((trial, "again"), combined.__lshift__, sources[0])
        RESULTS.append((trial, "final", snapshot(combined, universe)))

    # odd arguments
    for n, bad in enumerate([NoValues(), None, 3, [1, 2], {"a": 1}, {"a": NoValues()},
                             {"a": Item([1], "n", FakeEntity(0), "r")},
                             {"a": Item("ok", "n", FakeEntity(1), "r"), "b": NoValues()}]):
        combined = CombinedRegistry()
        combined << {"seed": Item("seed", "seed", FakeEntity("seed"), "Kanamycin")}
        attempt(("bad", n), combined.add_registry, bad)
        RESULTS.append(("bad", n, snapshot(combined, universe + ["seed", "ok"])))

    # a subclass with its own storage type
    class OrderedCombined(CombinedRegistry):
        def __init__(self):
            self._data = collections.OrderedDict()

    for trial in range(50):
        combined = OrderedCombined()
        for k in range(3):
            attempt(("ordered", trial, k), combined.__lshift__, random_registry(rng, ("o", trial, k)))
        RESULTS.append(("ordered", trial, type(combined._data).__name__, snapshot(combined, universe)))

    # real registries
    from moclo.registry.ytk import YTKRegistry, PTKRegistry
    from moclo.registry.cidar import CIDARRegistry

    for kit, name in [("ytk", "ytk"), ("ytk", "ptk"), ("cidar", "cidar")]:
        path = os.path.join(ROOT, "moclo-{}".format(kit), "moclo", "registry", name + ".tar.gz")
        if not os.path.exists(path):
            build_registries(kit)
    y, p, c = YTKRegistry(), PTKRegistry(), CIDARRegistry()
    combined = CombinedRegistry() << y << p << c << y
    RESULTS.append(("real", list(combined), len(combined)))
    RESULTS.append(("real identity", all(combined[k] is y[k] for k in y),
                    all(combined[k] is p[k] for k in p), all(combined[k] is c[k] for k in c)))
    RESULTS.append(("real items", [(v.id, v.name, v.resistance, type(v.entity).__name__) for v in combined.values()]))

    digest = hashlib.sha256(repr(RESULTS).encode("utf-8")).hexdigest()
    print(len(RESULTS), digest)


if __name__ == "__main__":
    main()
