# coding: utf-8
"""Differential test for the rewrite of `CIDARRegistry._load_entity`."""
import sys

sys.path.insert(0, "/tmp/agentsR4/R19")
import tests  # noqa: E402,F401

import glob  # noqa: E402
import hashlib  # noqa: E402
import io  # noqa: E402
import os  # noqa: E402
import random  # noqa: E402
import re  # noqa: E402
import shutil  # noqa: E402
import tarfile  # noqa: E402
import tempfile  # noqa: E402
import warnings  # noqa: E402

warnings.simplefilter("ignore")

import Bio.SeqIO  # noqa: E402

from moclo.kits import cidar  # noqa: E402
from moclo.record import CircularRecord  # noqa: E402
from moclo.registry.base import Item  # noqa: E402
from moclo.registry.cidar import CIDARRegistry  # noqa: E402
from tests._utils import build_registries  # noqa: E402

ROOT = "/tmp/agentsR4/R19"
RESULTS = []
WORK = tempfile.mkdtemp(prefix="r19_6_")


def describe(value):
    if isinstance(value, Item):
        return ("Item", value.id, value.name, value.resistance) + describe(value.entity)
    if hasattr(value, "record") and hasattr(value.record, "seq"):
        rec = value.record
        return (
            type(value).__name__, type(rec).__name__, rec.id, rec.name, rec.description, len(rec.seq),
            hashlib.md5(str(rec.seq).encode()).hexdigest(), len(rec.features),
        )
    if isinstance(value, (list, tuple)):
        return [describe(v) for v in value]
    if isinstance(value, (str, int, bool, type(None))):
        return value
    return type(value).__name__


def attempt(tag, func, *args):
    try:
        out = ("ok", func(*args))
    except BaseException as err:
        out = ("raise", type(err).__name__, str(err).replace(WORK, "<WORK>"))
    RESULTS.append((tag, out if out[0] == "raise" else ("ok", describe(out[1]))))
    return out


# --- user-defined subclasses ------------------------------------------------

class Marker(object):
    def __init__(self, record):
        self.record = record


class MarkerA(Marker):
    pass


class MarkerB(Marker):
    pass


class ExtendedCIDAR(CIDARRegistry):
    _CLASSES = dict(CIDARRegistry._CLASSES, **{"Destination Vector": MarkerA, "Unknown": MarkerB, "": MarkerA})
    _TYPES = dict(CIDARRegistry._TYPES, **{"": MarkerB, "cds": cidar.CIDARCodingSequence, "Promoter": None})


class BasicPartInClasses(CIDARRegistry):
    # "Basic Part" is never looked up in _CLASSES, whatever the table says
    _CLASSES = dict(CIDARRegistry._CLASSES, **{"Basic Part": MarkerA})
    _TYPES = {}


class LooseRegex(CIDARRegistry):
    _ENTITY_RX = re.compile(r"(?i)\s*moclo\s+([^:]*):\s*([A-Za-z ]*)")


class ThreeGroups(CIDARRegistry):
    _ENTITY_RX = re.compile(r"MoClo (.*): (\w*)(.*)")


class OneGroup(CIDARRegistry):
    _ENTITY_RX = re.compile(r"MoClo (.*):")


class OptionalGroup(CIDARRegistry):
    _ENTITY_RX = re.compile(r"MoClo ([^:]*)(?:: ([^\-\[\(]*))?")


class NoGroup(CIDARRegistry):
    _ENTITY_RX = re.compile(r"MoClo")


CLASSES = [CIDARRegistry, ExtendedCIDAR, BasicPartInClasses, LooseRegex, ThreeGroups, OneGroup, OptionalGroup, NoGroup]

KINDS = ["Basic Part", "Basic Part", "Basic Part", "Destination Vector", "Destination Vector", "Device",
         "Transcriptional Unit", "Cassette Vector", "Entry Vector", "basic part", " Basic Part ", "Basic  Part",
         "Unknown", "", "Destination vector", "Basic Part: Basic Part"]
TYPES = ["CDS", "RBS", "Double terminator", "Controllable promoter", "Constitutive promoter", "cds", "Promoter",
         "", " CDS  ", "CDS\t", "Double  terminator", "RBS.", "Constitutive promoter Anderson"]
TAILS = ["", " - tail text", " (note)", " [A:x:B].", "- glued", " -", "\nsecond line", " - a - b (c) [d]"]
HEADS = ["MoClo ", "MoClo ", "MoClo ", "MoClo ", "moclo ", " MoClo ", "XMoClo ", "MoClo", "", "MoClo  "]
IDS = ["DVA_AB", "DVA_GB", "DVK_AE", "DVK_GH", "DVA", "DVK", "DV", "dva_ab", "XDVA_AB", "DVL_AB", "", "C0040_CD",
       "B0015_DE", "J23100_AB", "DVADVK", "DVKDVA"]


def random_description(rng):
    roll = rng.random()
    if roll < 0.05:
        return rng.choice(["", "synthetic circular DNA.", "MoClo", "MoClo :", "MoClo : ", ":", "MoClo Basic Part"])
    sep = rng.choice([": ", ": ", ": ", ":", " : ", ":  ", " "])
    return rng.choice(HEADS) + rng.choice(KINDS) + sep + rng.choice(TYPES) + rng.choice(TAILS)


def direct(rng, templates):
    """Call the hook the way `_data` does, on records built in memory."""
    for n in range(1500):
        text = rng.choice(templates)
        record = CircularRecord(Bio.SeqIO.read(io.StringIO(text), "gb"))
        record.description = random_description(rng)
        record.id = rng.choice(IDS)
        if rng.random() < 0.02:
            record.id = rng.choice([None, 5, b"DVA"])
        if rng.random() < 0.02:
            record.description = rng.choice([None, 5, b"MoClo Basic Part: CDS"])
        cls = rng.choice(CLASSES)
        before = (record.id, record.description, len(record.features), dict(record.annotations))
        out = attempt(("direct", n, cls.__name__, repr(record.id), repr(record.description)),
                      cls()._load_entity, record)
        after = (record.id, record.description, len(record.features), dict(record.annotations))
        RESULTS.append(("direct", n, "record untouched", before == after,
                        out[0] == "ok" and getattr(out[1], "record", None) is record))


def write_archive(fname, members):
    with tarfile.open(os.path.join(WORK, fname), "w:gz") as tar:
        for name, text in members:
            data = text.encode("utf-8")
            info = tarfile.TarInfo(name)
            info.size = len(data)
            tar.addfile(info, io.BytesIO(data))


def set_definition(text, description):
    lines = text.splitlines()
    start = [i for i, l in enumerate(lines) if l.startswith("DEFINITION")][0]
    end = [i for i, l in enumerate(lines) if l.startswith("ACCESSION")][0]
    new = ["DEFINITION  " + part if k == 0 else "            " + part
           for k, part in enumerate(description.split("\n"))]
    lines[start:end] = new
    return "\n".join(lines) + "\n"


def archives(rng, sources):
    out = []
    # the real records under their own and under foreign identifiers
    members = []
    for n, (ident, text) in enumerate(sources):
        kind = n % 6
        if kind in (0, 1):
            newid = ident
        elif kind == 2:
            newid = ident.replace("DVA", "DVK") if ident.startswith("DVA") else ident.replace("DVK", "DVA")
            newid = newid if newid != ident else "DVA_" + ident[:4]
        elif kind == 3:
            newid = ident.lower()
        elif kind == 4:
            newid = "X" + ident
        else:
            newid = rng.choice(["DVA", "DVK", "DVL"]) + ident[3:]
        members.append((newid, text.replace(ident, newid)))
    for n, member in enumerate(members):
        write_archive("real{}.tar.gz".format(n), [member])
        out.append(("real{}.tar.gz".format(n), [member[0]]))
    # generated descriptions on real sequences
    for n in range(260):
        ident, text = rng.choice(sources)
        newid = rng.choice(IDS) or "EMPTY"
        newid = "{}_{}".format(newid, n)
        text = set_definition(text.replace(ident, newid), random_description(rng).strip("\n") or ".")
        write_archive("gen{}.tar.gz".format(n), [(newid, text)])
        out.append(("gen{}.tar.gz".format(n), [newid]))
    write_archive("whole.tar.gz", [(i, t) for i, t in sources])
    out.append(("whole.tar.gz", [i for i, _ in sources]))
    return out


def bind(cls, fname):
    return type(str(cls.__name__ + "_" + fname.split(".")[0]), (cls,), {"_module": "r19res6", "_file": fname})


def main():
    rng = random.Random(190006)
    path = os.path.join(ROOT, "moclo-cidar", "moclo", "registry", "cidar.tar.gz")
    if not os.path.exists(path):
        build_registries("cidar")
    sources = []
    for gb in sorted(glob.glob(os.path.join(ROOT, "moclo-cidar", "registry", "cidar", "*.gb"))):
        with open(gb) as handle:
            sources.append((os.path.basename(gb)[:-3], handle.read()))

    with open(os.path.join(WORK, "r19res6.py"), "w") as handle:
        handle.write("# resources of the differential test\n")
    sys.path.insert(0, WORK)
    try:
        for fname, keys in archives(rng, sources):
            for cls in (CLASSES if not fname.startswith("gen") else rng.sample(CLASSES, 3)):
                registry = bind(cls, fname)()
                tag = (cls.__name__, fname)
                attempt((tag, "members"), list, registry)
                for key in keys[:8]:
                    attempt((tag, "get", key), registry.__getitem__, key)
                    attempt((tag, "in", key), registry.__contains__, key)
                attempt((tag, "all"), lambda: [describe(v) for v in registry._data.values()])

        direct(rng, [t for _, t in rng.sample(sources, 15)])

        registry = CIDARRegistry()
        attempt(("real", "items"), lambda: [describe(registry[k]) for k in sorted(registry)])
        attempt(("real", "order"), lambda: list(registry._data))
    finally:
        shutil.rmtree(WORK, ignore_errors=True)

    digest = hashlib.sha256(repr(RESULTS).encode("utf-8")).hexdigest()
    print(len(RESULTS), digest)


if __name__ == "__main__":
    main()
