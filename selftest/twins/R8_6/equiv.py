# Differential test for R8_6: PlantRegistry._load_entity and the moclo.kits.plant module
import sys
sys.path.insert(0, "/tmp/agentsR/R8")
import tests  # noqa: F401  (splices the kit packages into the moclo namespace)

import copy
import hashlib
import inspect
import os
import random
import warnings

warnings.simplefilter("ignore")

from Bio.Seq import Seq
from Bio.SeqRecord import SeqRecord

from moclo.record import CircularRecord
from moclo.kits import moclo as moclo_kit, plant as plant_kit
from moclo.registry.plant import PlantRegistry


def ensure(kit, *archives):
    from tests._utils import build_registries
    root = "/tmp/agentsR/R8/moclo-{0}/moclo/registry".format(kit)
    if not all(os.path.exists(os.path.join(root, a)) for a in archives):
        build_registries(kit)


def outcome(func, *args):
    try:
        return ("ok", func(*args))
    except BaseException as err:  # noqa
        return (
            "err",
            type(err).__name__,
            str(err),
            type(err.__cause__).__name__,
            type(err.__context__).__name__,
            err.__suppress_context__,
        )


def load(registry, record):
    result = outcome(registry._load_entity, record)
    if result[0] == "ok":
        entity = result[1]
        if isinstance(entity, tuple):
            result = ("ok", entity)
        else:
            result = ("ok", type(entity).__name__, entity.record is record,
                      outcome(lambda: str(entity.target_sequence().seq)))
    return (repr(getattr(record, "id", None)), result)


def kit_classes():
    out = []
    for name, cls in sorted(vars(plant_kit).items()):
        if inspect.isclass(cls) and cls.__module__ == plant_kit.__name__:
            out.append((name, cls.signature, cls.cutter.__name__, [c.__name__ for c in cls.__mro__],
                        outcome(cls.structure), cls.__doc__))
    return out


SIGNATURES = sorted(
    {cls.signature for cls in vars(moclo_kit).values()
     if inspect.isclass(cls) and isinstance(getattr(cls, "signature", None), tuple) and "N" not in "".join(cls.signature)}
    | {cls.signature for cls in vars(plant_kit).values()
       if inspect.isclass(cls) and isinstance(getattr(cls, "signature", None), tuple)}
    | {("GGAG", "GGAG"), ("ACGT", "TTTT"), ("CGCT", "GGAG"), ("TACT", "GCTT")}
)


def clean(rng, length):
    """Random DNA without any BsaI / BpiI site."""
    while True:
        seq = "".join(rng.choice("ATGC") for _ in range(length))
        if not any(site in seq + seq for site in ("GGTCTC", "GAGACC", "GAAGAC", "GTCTTC")):
            return seq


def make_part(rng, index):
    up, down = rng.choice(SIGNATURES)
    insert = clean(rng, rng.randint(4, 60))
    backbone = clean(rng, rng.randint(20, 120))
    roll = rng.random()
    if roll < 0.7:      # a well-formed level 0 module
        seq = "GGTCTC" + rng.choice("ATGC") + up + insert + down + rng.choice("ATGC") + "GAGACC" + backbone
    elif roll < 0.8:    # only one site
        seq = "GGTCTC" + rng.choice("ATGC") + up + insert + down + backbone
    elif roll < 0.9:    # BpiI instead of BsaI
        seq = "GAAGAC" + "AA" + up + insert + down + "AA" + "GTCTTC" + backbone
    else:               # nothing at all
        seq = backbone + insert
    shift = rng.choice([0, 0, 1, 3, 7, len(seq) // 2, len(seq) - 1, rng.randrange(len(seq))])
    seq = seq[shift:] + seq[:shift]  # the match may wrap around the origin
    if rng.random() < 0.15:
        seq = seq.lower()
    elif rng.random() < 0.1:
        seq = "".join(c.lower() if rng.random() < 0.5 else c for c in seq)
    rec = SeqRecord(Seq(seq), id="part{}".format(index), name="part{}".format(index))
    rec.annotations["molecule_type"] = "DNA"
    rec.annotations["topology"] = "circular"
    return CircularRecord(rec) if rng.random() < 0.8 else rec


class Weird(object):
    def __init__(self, ident):
        self.id = ident


def main():
    ensure("plant", "plant.tar.gz")
    rng = random.Random(8006)
    results = []
    registry = PlantRegistry()

    # the kit module itself
    results.append((plant_kit.__version__, plant_kit.__author__, type(plant_kit.__version__).__name__))
    results.append(kit_classes())
    results.append([c.__name__ for c in moclo_kit.MoCloPart.__subclasses__()])

    # the embedded registry
    items = [registry[k] for k in sorted(registry)]
    for item in items:
        results.append((item.id, item.name, item.resistance, type(item.entity).__name__))
        results.append(load(registry, item.record))

    # real records under other identifiers, synthetic parts
    parts = [make_part(rng, i) for i in range(900)]
    for rec in parts:
        results.append(load(registry, rec))

    # a registry with explicit overrides
    class Overridden(PlantRegistry):
        _types = {
            "part3": plant_kit.PlantTer,
            "part5": moclo_kit.MoCloGene,
            "part8": lambda record: ("lambda", record.id),
            "part13": lambda record: {}["missing"],  # a KeyError raised by the factory must get out
            items[0].id: plant_kit.Plant5U,
            "": plant_kit.PlantCDS,
            None: plant_kit.PlantCDS,
            7: plant_kit.PlantCDS,
        }

    over = Overridden()
    for rec in parts[:60] + [i.record for i in items[:30]]:
        results.append(load(over, rec))
    for ident in ("", None, 7, 7.0, "part3 ", "PART3", b"part3", ("part3",), ["part3"], {"a": 1}):
        rec = copy.copy(parts[3])
        rec.id = ident
        results.append(load(over, rec))
        results.append(load(registry, rec))
        results.append(load(over, Weird(ident)))
        results.append(load(registry, Weird(ident)))
    for bad in (None, 3, object):
        results.append(load(registry, bad))
        results.append(load(over, bad))

    print(len(results), hashlib.sha256(repr(results).encode("utf-8")).hexdigest())


main()
