# coding: utf-8
"""Differential test for moclo.core._assembly.AssemblyManager.

Run as: cd /tmp/agentsR/R2 && /venv/bin/python refactor_out/<dir>/equiv.py
Prints a sha256 digest of every observable result (assembled records, state of
the input records afterwards, warnings, exceptions by type/message/attributes).
"""
import sys

sys.path.insert(0, "/tmp/agentsR/R2")
import tests  # noqa: F401,E402  (splices the kit packages into the namespace)

import copy  # noqa: E402
import hashlib  # noqa: E402
import random  # noqa: E402
import re  # noqa: E402
import warnings  # noqa: E402

from Bio.Restriction import BpiI, BsaI, BsmBI  # noqa: E402
from Bio.Seq import Seq  # noqa: E402
from Bio.SeqFeature import SeqFeature, FeatureLocation, Reference  # noqa: E402
from Bio.SeqRecord import SeqRecord  # noqa: E402

from moclo import errors  # noqa: E402
from moclo.record import CircularRecord  # noqa: E402
from moclo.core._assembly import AssemblyManager  # noqa: E402
from moclo.core.modules import AbstractModule  # noqa: E402
from moclo.core.vectors import AbstractVector  # noqa: E402

RNG = random.Random(20260926)
ADDR = re.compile(r"0x[0-9a-fA-F]+")
OUT = []


def rc(s):
    return str(Seq(s).reverse_complement())


def make_classes(cutter):
    class V(AbstractVector):
        pass

    class M(AbstractModule):
        pass

    V.cutter = cutter
    M.cutter = cutter
    V.__name__ = "V_" + cutter.__name__
    M.__name__ = "M_" + cutter.__name__
    return V, M


KITS = [(c,) + make_classes(c) for c in (BpiI, BsaI, BsmBI)]


def spacer_len(cutter):
    e = cutter.elucidate()
    return e.index("^") - len(cutter.site)


def randseq(n, cutter):
    bad = (cutter.site, rc(cutter.site))
    while True:
        s = "".join(RNG.choice("ACGT") for _ in range(n))
        if not any(b in s for b in bad):
            return s


def mixcase(s, p):
    return "".join(c.lower() if RNG.random() < p else c for c in s)


def make_refs(n, pool):
    refs = []
    for _ in range(n):
        r = Reference()
        k = RNG.choice(pool)
        r.title = "title %d" % k
        r.authors = "author %d" % (k % 3)
        r.journal = "J. %d" % k
        refs.append(r)
    return refs


CITATION_CHOICES = [
    lambda n: ["[%d]" % RNG.randint(1, max(n, 1))],
    lambda n: ["[%d]" % RNG.randint(1, max(n, 1)) for _ in range(RNG.randint(2, 4))],
    lambda n: [],
]
BAD_CITATIONS = [["foo"], ["[]"], ["[0]"], ["[77]"], ["[1]x", "[1]"], ("[1]",), None, "[1]", ["[-1]"], ["[1]", "bar"]]


def decorate(rec, lo, hi, bad=False):
    """Add references and a few features (with citations) inside [lo, hi)."""
    nrefs = RNG.choice([0, 1, 2, 3, 3])
    if nrefs or RNG.random() < 0.3:
        rec.annotations["references"] = make_refs(nrefs, range(5))
    for j in range(RNG.randint(0, 4)):
        a = RNG.randint(lo, max(lo, hi - 1))
        b = RNG.randint(a, hi)
        quals = {"label": ["f%d" % j]}
        if nrefs and RNG.random() < 0.7:
            quals["citation"] = RNG.choice(CITATION_CHOICES)(nrefs)
        elif RNG.random() < 0.1:
            quals["citation"] = ["[1]"]  # no references at all -> IndexError
        if bad and RNG.random() < 0.5:
            quals["citation"] = copy.deepcopy(RNG.choice(BAD_CITATIONS))
        rec.features.append(
            SeqFeature(FeatureLocation(a, b, RNG.choice([1, -1, None])), type=RNG.choice(["CDS", "misc_feature", "source"]), qualifiers=quals)
        )
    if RNG.random() < 0.2:
        rec.features.append(SeqFeature(FeatureLocation(0, len(rec), 1), type="source", qualifiers={"citation": ["[1]"]} if nrefs else {}))


def finish(seq, rid, lo, hi, p_lower, circular, rotate, bad):
    seq = mixcase(seq, p_lower)
    if circular:
        rec = CircularRecord(Seq(seq), id=rid, name=rid)
        if RNG.random() < 0.5:
            rec.annotations["topology"] = RNG.choice(["circular", "Circular"])
    else:
        rec = SeqRecord(Seq(seq), id=rid, name=rid)
        rec.annotations["topology"] = "linear"
    decorate(rec, lo, hi, bad)
    if circular and rotate is not None:
        rec = rec >> rotate
    return rec


def make_module(M, cutter, start, end, rid, p_lower=0.0, circular=True, rotate=None, bad=False, tlen=None):
    n = spacer_len(cutter)
    target = randseq(RNG.randint(2, 30) if tlen is None else tlen, cutter)
    head = cutter.site + randseq(n, cutter) + start
    seq = head + target + end + randseq(n, cutter) + rc(cutter.site) + randseq(RNG.randint(0, 15), cutter)
    rec = finish(seq, rid, len(head) - len(start), len(head) + len(target) + len(end), p_lower, circular, rotate, bad)
    return M(rec)


def make_vector(V, cutter, start, end, rid, p_lower=0.0, circular=True, rotate=None, bad=False):
    n = spacer_len(cutter)
    head = randseq(1, cutter) + end + randseq(n, cutter) + rc(cutter.site) + randseq(RNG.randint(0, 12), cutter) + cutter.site + randseq(n, cutter) + start
    seq = head + randseq(RNG.randint(1, 40), cutter)
    rec = finish(seq, rid, len(head), len(seq), p_lower, circular, rotate, bad)
    return V(rec)


def rand_overhangs(k):
    ohs = []
    while len(ohs) < k:
        o = "".join(RNG.choice("ACGT") for _ in range(4))
        if o in ohs or rc(o) in ohs or o == rc(o):
            continue
        ohs.append(o)
    return ohs


def rotation(length):
    return RNG.choice([None, 0, 1, length - 1, length, length + 3, 3 * length + 2, -1, -length, -2 * length - 5, RNG.randint(0, length)])


# --- serialisation ---------------------------------------------------------

def dump_feature(f):
    return (f.type, repr(f.location), f.id, sorted((k, repr(v)) for k, v in f.qualifiers.items()))


def dump_record(rec):
    return (
        type(rec).__name__,
        str(rec.seq),
        rec.id,
        rec.name,
        rec.description,
        [(k, repr(v)) for k, v in rec.annotations.items()],
        [dump_feature(f) for f in rec.features],
        sorted(rec.letter_annotations.items()),
        list(rec.dbxrefs),
    )


def dump_exc(e):
    d = [type(e).__name__]
    try:
        d.append(ADDR.sub("0x", str(e)))
    except Exception as e2:  # str() itself may fail
        d.append(("str failed", type(e2).__name__, str(e2)))
    d.append(type(e.__cause__).__name__)
    d.append(e.__suppress_context__)
    d.append(type(e.__context__).__name__ if not e.__suppress_context__ else "-")
    for attr in ("details", "start_overhang"):
        if hasattr(e, attr):
            d.append((attr, repr(getattr(e, attr))))
    for attr in ("duplicates", "remaining"):
        if hasattr(e, attr):
            d.append((attr, [x.record.id for x in getattr(e, attr)]))
    return tuple(d)


def observe(label, func, inputs=()):
    with warnings.catch_warnings(record=True) as caught:
        warnings.simplefilter("always")
        try:
            res = func()
            if isinstance(res, SeqRecord):
                res = dump_record(res)
            out = ("ok", res)
        except Exception as e:
            out = ("exc", dump_exc(e))
    warns = [(w.category.__name__, dump_exc(w.message)) for w in caught]
    state = [dump_record(x.record) for x in inputs]
    OUT.append(repr((label, out, warns, state)))


# --- scenarios --------------------------------------------------------------

def scenario(i):
    cutter, V, M = RNG.choice(KITS)
    k = RNG.randint(1, 5)
    ohs = rand_overhangs(k + 3)
    chain, spare = ohs[: k + 1], ohs[k + 1 :]
    p_lower = RNG.choice([0.0, 0.0, 0.3, 1.0])
    bad = RNG.random() < 0.25
    circ = RNG.random() < 0.85
    kind = RNG.choice(["ok", "ok", "ok", "missing", "dup_same_obj", "dup_start", "revcomp", "palindrome", "unused", "bad_vector", "empty_target", "shuffled", "unused_missing", "case_dup"])

    def mod(a, b, rid, **kw):
        kw.setdefault("p_lower", p_lower)
        kw.setdefault("circular", circ)
        kw.setdefault("bad", bad)
        m = make_module(M, cutter, a, b, rid, **kw)
        return m

    vstart, vend = chain[-1], chain[0]
    if kind == "bad_vector":
        vstart = vend if RNG.random() < 0.5 else vend.lower()
    vec = make_vector(V, cutter, vstart, vend, "vec%d" % i, p_lower=p_lower, circular=circ, bad=bad)
    if circ:
        vec = V(vec.record >> (rotation(len(vec.record)) or 0))
    mods = []
    for j in range(k):
        m = mod(chain[j], chain[j + 1], "m%d_%d" % (i, j), tlen=RNG.choice([0, 1, 2, 2, 3]) if kind == "empty_target" else None)
        if circ:
            r = rotation(len(m.record))
            if r is not None:
                m = M(m.record >> r)
        mods.append(m)

    if kind in ("missing", "unused_missing") and mods:
        del mods[RNG.randrange(len(mods))]
    if kind == "dup_same_obj":
        mods.insert(RNG.randrange(len(mods) + 1), RNG.choice(mods))
    if kind == "dup_start":
        j = RNG.randrange(k)
        mods.insert(RNG.randrange(len(mods) + 1), mod(chain[j], spare[0], "dup%d" % i))
    if kind == "case_dup":
        j = RNG.randrange(k)
        mods.insert(RNG.randrange(len(mods) + 1), mod(chain[j].lower(), spare[0].lower(), "cdup%d" % i, p_lower=0.0))
    if kind == "revcomp":
        j = RNG.randrange(k)
        mods.insert(RNG.randrange(len(mods) + 1), mod(rc(chain[j]), spare[0], "rcm%d" % i))
    if kind == "palindrome":
        mods.insert(RNG.randrange(len(mods) + 1), mod(RNG.choice(["AATT", "GATC", "acgt", "TgCa"]), spare[0], "pal%d" % i, p_lower=0.0))
    if kind in ("unused", "unused_missing"):
        for u in range(RNG.randint(1, 2)):
            mods.insert(RNG.randrange(len(mods) + 1), mod(spare[u], spare[u + 1] if u == 0 else chain[0], "un%d_%d" % (i, u)))
    if kind == "shuffled":
        RNG.shuffle(mods)
    if not mods:
        mods = [mod(spare[0], spare[1], "only%d" % i)]
    return kind, vec, mods


def run_direct(i, kind, vec, mods):
    """Call the private steps one by one on deep copies."""
    everything = [vec] + mods

    def build():
        return AssemblyManager(vec, list(mods), id_="direct%d" % i, name="n%d" % i)

    holder = {}

    def step_init():
        holder["mgr"] = build()
        m = holder["mgr"]
        return (m.id, m.name, [e.record.id for e in m.elements], [e.record.id for e in m.modules], m.vector.record.id)

    observe(("init", i, kind), step_init, everything)
    mgr = holder.get("mgr")
    if mgr is None:
        return

    def step_map():
        holder["map"] = mgr._generate_modules_map()
        return [(type(k).__name__, str(k), v.record.id) for k, v in holder["map"].items()]

    observe(("map", i, kind), step_map, everything)

    for elem in mgr.elements:
        observe(("deref", i, elem.record.id), lambda e=elem: mgr._deref_citations(e.record), [elem])

    modmap = holder.get("map")
    if modmap is not None:
        def step_gen():
            mm = dict(modmap)
            rec = mgr._generate_assembly(mm)
            holder["asm"] = rec
            return (dump_record(rec), [str(k) for k in mm])

        observe(("gen", i, kind), step_gen, everything)
        # a map lacking one entry / holding a stray entry
        if len(modmap) > 1:
            def step_gen_less():
                mm = dict(modmap)
                del mm[RNG.choice(list(mm))]
                return dump_record(mgr._generate_assembly(mm))

            observe(("gen-less", i, kind), step_gen_less, everything)
        observe(("gen-empty", i, kind), lambda: dump_record(mgr._generate_assembly({})), everything)

    asm = holder.get("asm")
    if asm is not None:
        observe(("annotate", i, kind), lambda: (mgr._annotate_assembly(asm), dump_record(asm))[1])
        observe(("ref-asm", i, kind), lambda: (mgr._ref_citations(asm), dump_record(asm))[1])
        observe(("ref-asm-twice", i, kind), lambda: (mgr._ref_citations(asm), dump_record(asm))[1])
    for elem in mgr.elements:
        observe(("ref", i, elem.record.id), lambda e=elem: mgr._ref_citations(e.record), [elem])
    for elem in mgr.elements[:2]:
        observe(("deref2", i, elem.record.id), lambda e=elem: mgr._deref_citations(e.record), [elem])
        observe(("deref3", i, elem.record.id), lambda e=elem: mgr._deref_citations(e.record), [elem])
        observe(("ref2", i, elem.record.id), lambda e=elem: mgr._ref_citations(e.record), [elem])


def main(n=600):
    for i in range(n):
        kind, vec, mods = scenario(i)
        everything = [vec] + mods
        # the public entry point, twice (the second run sees the restored inputs)
        kw = RNG.choice([{}, {"id": "asm%d" % i}, {"name": "nm%d" % i}, {"id": "x", "name": "y"}])
        observe(("assemble", i, kind), lambda: vec.assemble(*mods, **kw), everything)
        observe(("assemble-again", i, kind), lambda: vec.assemble(*mods, **kw), everything)
        # UnusedModules turned into an error: inputs must still be restored
        def strict():
            with warnings.catch_warnings():
                warnings.simplefilter("error", errors.AssemblyWarning)
                return vec.assemble(*mods, **kw)

        observe(("assemble-strict", i, kind), strict, everything)
        # fresh copies for the step-by-step run
        vec2 = type(vec)(copy.deepcopy(vec.record))
        seen = {}
        mods2 = []
        for m in mods:
            if id(m) not in seen:
                seen[id(m)] = type(m)(copy.deepcopy(m.record))
            mods2.append(seen[id(m)])
        run_direct(i, kind, vec2, mods2)
    EXTRA()
    blob = "\n".join(OUT).encode("utf-8")
    print(len(OUT), "observations")
    print(hashlib.sha256(blob).hexdigest())


def EXTRA():
    """Direct construction / formatting of every class of moclo.errors."""
    import pickle
    import itertools

    class Rec(object):
        def __init__(self, id):
            self.id = id

    class Mod(object):
        def __init__(self, id):
            self.record = Rec(id)

        def __repr__(self):
            return "Mod(%r)" % (self.record.id,)

    class Loud(object):
        """Details object with its own str()."""

        def __str__(self):
            return "loud {} details"

        def __repr__(self):
            return "Loud()"

    class BadStr(object):
        def __str__(self):
            raise RuntimeError("no str for you")

        def __repr__(self):
            return "BadStr()"

    details_pool = [None, "", "plain", "with {} braces", "{0} again", "{1}", "{name}", "}{", "{{escaped}}", u"d\u00e9tails", 0, 42, b"bytes", ["l"], Loud(), BadStr(), False, "same start overhang: 'ATGC'"]
    seq_pool = ["ACGT", "", Seq("ATGC"), SeqRecord(Seq("ATGC"), id="rec"), None, 12, ("a", "b"), "{}", "{0}", Mod("m")]
    id_pool = ["mod1", "", "{}", "m{0}", None, 5, u"\u03b1"]

    def describe(e):
        d = {"type": type(e).__name__, "mro": [c.__name__ for c in type(e).__mro__]}
        for what, f in (("str", str), ("repr", repr), ("format", lambda x: "{}".format(x)), ("fstr", lambda x: "%s" % (x,))):
            try:
                d[what] = ADDR.sub("0x", f(e))
            except Exception as err:
                d[what] = ("raised", type(err).__name__, str(err))
        d["args"] = ADDR.sub("0x", repr(e.args))
        d["dict"] = ADDR.sub("0x", repr(sorted(vars(e).items(), key=lambda kv: kv[0])))
        try:
            clone = pickle.loads(pickle.dumps(e))
            d["pickle"] = (type(clone).__name__, ADDR.sub("0x", repr(sorted(vars(clone).items(), key=lambda kv: kv[0]))))
        except Exception as err:
            d["pickle"] = ("raised", type(err).__name__)
        return sorted(d.items())

    def check(label, build):
        def run():
            e = build()
            out = describe(e)
            # raising and catching through each of the advertised base classes
            caught = []
            for base in (errors.MocloError, ValueError, RuntimeError, Warning, errors.AssemblyError, errors.AssemblyWarning, errors.InvalidSequence):
                try:
                    raise e
                except base:
                    caught.append(base.__name__)
                except Exception:
                    pass
            return (out, caught)

        observe(label, run)

    n = 0
    for cls in (errors.InvalidSequence, errors.IllegalSite):
        for seq, det in itertools.product(seq_pool, details_pool):
            n += 1
            check(("invalid", cls.__name__, n), lambda: cls(seq, details=det))
            if n % 7 == 0:
                check(("invalid-exc", cls.__name__, n), lambda: cls(seq, ValueError("inner"), det))
                check(("invalid-nodetails", cls.__name__, n), lambda: cls(seq))
        check(("invalid-noargs", cls.__name__), lambda: cls())
        check(("invalid-badkw", cls.__name__), lambda: cls("ACGT", foo=1))

        class Custom(cls):
            _msg = "custom {} message {{}}"

        class Custom2(cls):
            _msg = 17

        for det in details_pool:
            check(("invalid-custom", cls.__name__, repr(det)), lambda: Custom("ACGT", details=det))
            check(("invalid-custom2", cls.__name__, repr(det)), lambda: Custom2("ACGT", details=det))

    for det in details_pool:
        for k in range(0, 4):
            for trial in range(3):
                mods = [Mod(RNG.choice(id_pool)) for _ in range(k)]
                n += 1
                check(("dup", n), lambda: errors.DuplicateModules(*mods, details=det))
                check(("unused", n), lambda: errors.UnusedModules(*mods, details=det))
                check(("dup-extra-kw", n), lambda: errors.DuplicateModules(*mods, details=det, other=1, more="x"))
                check(("unused-extra-kw", n), lambda: errors.UnusedModules(*mods, details=det, other=1))
                if det is None:
                    check(("dup-nodetails", n), lambda: errors.DuplicateModules(*mods))
                    check(("unused-nodetails", n), lambda: errors.UnusedModules(*mods))
                    check(("dup-badmods", n), lambda: errors.DuplicateModules("not a module", *mods))
        for oh in seq_pool:
            n += 1
            check(("missing", n), lambda: errors.MissingModule(oh, details=det))
            check(("missing-extra-kw", n), lambda: errors.MissingModule(oh, details=det, x=None))
        check(("missing-noargs", repr(det)), lambda: errors.MissingModule(details=det))
        check(("missing-2args", repr(det)), lambda: errors.MissingModule("ACGT", "TTTT", details=det))

    # the options dict handed in by the caller must be left alone
    for cls, args in ((errors.DuplicateModules, (Mod("a"), Mod("b"))), (errors.MissingModule, ("ACGT",)), (errors.UnusedModules, (Mod("u"),))):
        opts = {"details": "kept", "extra": 1}
        e = cls(*args, **opts)
        OUT.append(repr(("opts", cls.__name__, sorted(opts.items()), str(e), e.details)))

    # warnings machinery formats the message through str()
    for det in details_pool:
        def warn():
            with warnings.catch_warnings(record=True) as caught:
                warnings.simplefilter("always")
                warnings.warn(errors.UnusedModules(Mod("w1"), Mod("w2"), details=det))
            w = caught[0]
            try:
                text = warnings.formatwarning(w.message, w.category, "file.py", 1, "line")
            except Exception as err:
                text = ("raised", type(err).__name__, str(err))
            return (w.category.__name__, text)

        observe(("warn", repr(det)), warn)

    for name in ("MocloError", "InvalidSequence", "IllegalSite", "AssemblyError", "DuplicateModules", "MissingModule", "AssemblyWarning", "UnusedModules"):
        cls = getattr(errors, name)
        OUT.append(repr(("class", name, [c.__name__ for c in cls.__mro__], cls.__doc__, "__str__" in vars(cls), "__init__" in vars(cls), hasattr(cls, "__unicode__"))))


if __name__ == "__main__":
    main()
