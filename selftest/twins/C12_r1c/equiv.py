"""Differential test for the code C12 depends on (existing API only).

Prints a digest of every result / exception / warning / input state; the
digest must be identical on the pristine tree and with clean.diff applied.

Run as:  cd /tmp/agents7/C12 && /venv/bin/python pairs_out/C12_r1/equiv.py
"""
import copy
import hashlib
import random
import re
import sys
import warnings

sys.path.insert(0, "/tmp/agents7/C12")
warnings.simplefilter("ignore")
import tests  # noqa: E402,F401

from Bio import Restriction  # noqa: E402
from Bio.Seq import Seq  # noqa: E402
from Bio.SeqFeature import SeqFeature, FeatureLocation  # noqa: E402
from Bio.SeqRecord import SeqRecord  # noqa: E402

from moclo import errors  # noqa: E402
from moclo.core import AbstractModule, AbstractVector, AbstractPart, Entry, Product  # noqa: E402
from moclo.record import CircularRecord  # noqa: E402
from moclo.regex import DNARegex  # noqa: E402

RNG = random.Random(20120)
LOG = []


def emit(*items):
    LOG.append(re.sub(r" at 0x[0-9a-fA-F]+", " at 0x?", repr(items)))


def rc(text):
    return str(Seq(text).reverse_complement())


def rand(n):
    return "".join(RNG.choice("ACGT") for _ in range(n))


def mixcase(text, p):
    return "".join(c.lower() if RNG.random() < p else c for c in text)


def show_record(rec):
    if rec is None:
        return None
    feats = [(f.type, str(f.location), sorted((k, str(v)) for k, v in f.qualifiers.items())) for f in rec.features]
    return (type(rec).__name__, str(rec.seq), rec.id, rec.name, rec.description, list(rec.dbxrefs),
            feats, sorted((k, repr(v)) for k, v in rec.annotations.items()),
            sorted((k, repr(v)) for k, v in rec.letter_annotations.items()))


def attempt(label, func):
    """Run func, log result or exception, and the warnings it caused."""
    with warnings.catch_warnings(record=True) as caught:
        warnings.simplefilter("always")
        try:
            value = func()
            outcome = ("ok", value)
        except Exception as err:  # noqa
            outcome = ("raise", type(err).__name__, str(err))
    warns = [(type(w.message).__name__, str(w.message)) for w in caught
             if not issubclass(w.category, (DeprecationWarning, PendingDeprecationWarning))]
    emit(label, outcome, warns)
    return outcome


class Kit(object):
    def __init__(self, enzyme):
        self.enzyme = enzyme
        head, rest = enzyme.elucidate().split("^")
        ovhg, tail = rest.split("_")
        self.site = enzyme.site
        self.spacer = len(head) - len(self.site)
        self.ovlen = len(ovhg)
        self.Module = type(str("Mod" + enzyme.__name__), (AbstractModule,), {"cutter": enzyme})
        self.Vector = type(str("Vec" + enzyme.__name__), (AbstractVector,), {"cutter": enzyme})

    def sites(self, text):
        return len(self.enzyme.search(Seq(text.upper()), linear=False))

    def arm(self):
        return self.site + rand(self.spacer)

    def overhangs(self, n):
        out = []
        while len(out) < n:
            o = rand(self.ovlen)
            if o == rc(o) or any(o == p or o == rc(p) for p in out):
                continue
            out.append(o)
        return out

    def module(self, ov1, ov2, nsites=2):
        while True:
            body = rand(RNG.randint(6, 14))
            if nsites == 3:
                body += self.arm() + rand(4)
            text = self.arm() + ov1 + body + ov2 + rc(self.arm()) + rand(RNG.randint(5, 12))
            if nsites == 1:
                text = self.arm() + ov1 + body + ov2 + rand(12)
            if self.sites(text) == nsites:
                return text

    def vector(self, ov_first, ov_last):
        while True:
            text = (rand(RNG.randint(4, 9)) + ov_first + rc(self.arm()) + rand(RNG.randint(0, 8))
                    + self.arm() + ov_last + rand(RNG.randint(4, 9)))
            if self.sites(text) == 2:
                return text


def features_for(text, refs):
    n = len(text)
    feats = []
    for i in range(RNG.randint(0, 3)):
        a = RNG.randrange(n - 2)
        b = RNG.randint(a + 1, n)
        quals = {"label": ["f%d" % i]}
        if refs and RNG.random() < 0.6:
            quals["citation"] = ["[%d]" % RNG.randint(1, len(refs))]
        feats.append(SeqFeature(FeatureLocation(a, b, strand=RNG.choice([1, -1])), type="misc_feature", qualifiers=quals))
    return feats


def make_record(text, ident, kind, shift=0, with_feats=False):
    shift %= len(text)
    text = text[shift:] + text[:shift]
    refs = ["ref-%s-%d" % (ident, i) for i in range(RNG.randint(0, 2))] if with_feats else []
    feats = features_for(text, refs) if with_feats else []
    ann = {}
    if refs:
        ann["references"] = list(refs)
    if kind == "circular":
        return CircularRecord(Seq(text), id=ident, name=ident, features=feats, annotations=ann or None)
    if kind == "circular-gb":
        ann.update({"topology": "circular", "molecule_type": "DNA"})
        return CircularRecord(Seq(text), id=ident, name=ident, features=feats, annotations=ann)
    if kind == "plain":
        return SeqRecord(Seq(text), id=ident, name=ident, features=feats, annotations=ann or None)
    if kind == "plain-circular":
        ann["topology"] = RNG.choice(["circular", "Circular", "CIRCULAR"])
        return SeqRecord(Seq(text), id=ident, name=ident, features=feats, annotations=ann)
    if kind == "plain-linear":
        ann["topology"] = RNG.choice(["linear", "Linear"])
        return SeqRecord(Seq(text), id=ident, name=ident, features=feats, annotations=ann)
    raise ValueError(kind)


def inspect_entity(label, cls, record):
    before = show_record(record)
    entity = cls(record)
    attempt(label + " valid", entity.is_valid)
    attempt(label + " valid again", entity.is_valid)
    attempt(label + " start", lambda: str(entity.overhang_start()))
    attempt(label + " end", lambda: str(entity.overhang_end()))
    attempt(label + " target", lambda: show_record(entity.target_sequence()))
    if isinstance(entity, AbstractVector):
        attempt(label + " placeholder", lambda: show_record(entity.placeholder_sequence()))
    emit(label + " untouched", show_record(record) == before)
    fresh = cls(record)
    attempt(label + " fresh start", lambda: str(fresh.overhang_start()))
    attempt(label + " fresh target", lambda: show_record(fresh.target_sequence()))


def run_assembly(label, kit, vec, mods, **kwargs):
    before = [show_record(r) for r in [vec] + mods]
    vector = kit.Vector(vec)
    modules = [kit.Module(m) for m in mods]
    attempt(label, lambda: show_record(vector.assemble(*modules, **kwargs)))
    emit(label + " inputs untouched", [show_record(r) for r in [vec] + mods] == before)
    attempt(label + " again", lambda: show_record(vector.assemble(*modules, **kwargs)))


def main():
    enzymes = [Restriction.BsaI, Restriction.BsmBI, Restriction.BpiI, Restriction.SapI,
               Restriction.AarI, Restriction.FokI, Restriction.BbvI, Restriction.BsmAI]
    kinds = ["circular", "circular-gb", "plain", "plain-circular", "plain-linear"]
    count = 0
    for enzyme in enzymes:
        kit = Kit(enzyme)
        for trial in range(4):
            n = RNG.randint(1, 3)
            ovs = kit.overhangs(n + 1)
            case = [0.0, 0.3, 1.0, 0.0][trial]
            vec = mixcase(kit.vector(ovs[0], ovs[-1]), case)
            mods = [mixcase(kit.module(ovs[i], ovs[i + 1]), case) for i in range(n)]
            tag = "%s/%d" % (enzyme.__name__, trial)

            # entities, every kind of record, rotations with the match over the origin
            for kind in kinds:
                for text, cls, name in [(vec, kit.Vector, "vec")] + [(m, kit.Module, "mod%d" % k) for k, m in enumerate(mods)]:
                    shifts = {0, 1, len(text) - 1, len(kit.site) + kit.spacer + kit.ovlen, RNG.randrange(len(text)), RNG.randrange(len(text))}
                    # rotations where a group ends or starts exactly on the origin
                    for anchor in ovs:
                        i = text.upper().find(anchor)
                        if i >= 0:
                            shifts.update({i, i + kit.ovlen, i + 1})
                    for shift in sorted(s % len(text) for s in shifts):
                        rec = make_record(text, name, kind, shift, with_feats=(trial == 3))
                        inspect_entity("%s %s %s >> %d" % (tag, kind, name, shift), cls, rec)
                        rev = rec.reverse_complement(id=True, name=True)
                        inspect_entity("%s %s %s >> %d rc" % (tag, kind, name, shift), cls, rev)
                        count += 2

            # wrong class, broken structures
            attempt(tag + " module as vector", lambda: kit.Vector(make_record(mods[0], "m", "circular")).is_valid())
            attempt(tag + " vector as module", lambda: kit.Module(make_record(vec, "v", "circular")).is_valid())
            one = kit.module(ovs[0], ovs[1], nsites=1)
            three = kit.module(ovs[0], ovs[1], nsites=3)
            for kind in ("circular", "plain"):
                inspect_entity(tag + " one site " + kind, kit.Module, make_record(one, "one", kind, RNG.randrange(len(one))))
                inspect_entity(tag + " three sites " + kind, kit.Module, make_record(three, "three", kind, RNG.randrange(len(three))))

            # assemblies
            for rep in range(4):
                v = make_record(vec, "v", RNG.choice(["circular", "circular-gb"]), RNG.randrange(len(vec)), with_feats=(trial == 3))
                ms = [make_record(t, "m%d" % k, RNG.choice(["circular", "circular-gb"]), RNG.randrange(len(t)), with_feats=(trial == 3))
                      for k, t in enumerate(mods)]
                RNG.shuffle(ms)
                run_assembly("%s assembly %d" % (tag, rep), kit, v, ms)
                run_assembly("%s assembly %d rc" % (tag, rep), kit, v.reverse_complement(id=True), [m.reverse_complement(id=True) for m in ms],
                             id="x%d" % rep, name="n%d" % rep)
                count += 2
            v = make_record(vec, "v", "circular")
            ms = [make_record(t, "m%d" % k, "circular") for k, t in enumerate(mods)]
            stray = make_record(kit.module(*kit.overhangs(2)), "stray", "circular")
            run_assembly(tag + " unused", kit, v, ms + [stray])
            run_assembly(tag + " missing", kit, v, ms[1:] + [stray])
            twin = make_record(kit.module(ovs[0], ovs[1]), "twin", "circular")
            run_assembly(tag + " duplicate", kit, v, ms + [twin])
            flipped = make_record(kit.module(rc(ovs[1]), rc(ovs[0])), "flipped", "circular")
            run_assembly(tag + " reverse duplicate", kit, v, ms + [flipped])
            samev = make_record(kit.vector(ovs[0], ovs[0]), "samev", "circular")
            run_assembly(tag + " unsuitable vector", kit, samev, ms)
            run_assembly(tag + " plain module", kit, v, [make_record(mods[0], "pm", "plain")] + ms[1:])
            run_assembly(tag + " plain vector", kit, make_record(vec, "pv", "plain-circular"), ms)
            run_assembly(tag + " invalid module", kit, v, [make_record(one, "one", "circular")])
            count += 8

    # parts: signature based structures and characterize
    class DemoPart(AbstractPart):
        cutter = Restriction.BsaI
        signature = NotImplemented

    class DemoPartA(DemoPart, Entry):
        signature = ("AACG", "TTCC")

    class DemoPartB(DemoPart, Entry):
        signature = ("TTCC", "GGTA")

    kit = Kit(Restriction.BsaI)
    for sig in [("AACG", "TTCC"), ("TTCC", "GGTA"), ("CCCC", "GTGT")]:
        text = kit.module(*sig)
        for kind in kinds:
            rec = make_record(text, "part", kind, RNG.randrange(len(text)))
            out = attempt("characterize %s %s" % (sig, kind), lambda: type(DemoPart.characterize(rec)).__name__)
            attempt("part A valid %s %s" % (sig, kind), lambda: DemoPartA(rec).is_valid())
            count += 1
    emit("structures", DemoPartA.structure(), DemoPartB.structure(),
         [(Kit(e).Module.structure(), Kit(e).Vector.structure()) for e in enzymes])

    # abstract classes and unsuitable cutters
    attempt("no cutter", lambda: AbstractModule(make_record("ACGT" * 5, "x", "circular")))
    attempt("no cutter vector", lambda: AbstractVector(make_record("ACGT" * 5, "x", "circular")))
    attempt("blunt", lambda: type(str("Blunt"), (Product,), {"cutter": Restriction.EcoRV})(make_record("ACGT" * 5, "x", "circular")))
    attempt("no signature", lambda: DemoPart.structure())

    # records
    base = SeqRecord(Seq("ATGCATGCAAGGTTCC"), id="r", name="rn", description="d", dbxrefs=["a:b"],
                     features=[SeqFeature(FeatureLocation(1, 5, strand=1), type="gene", qualifiers={"label": ["g"]}),
                               SeqFeature(FeatureLocation(0, 16, strand=1), type="source"),
                               SeqFeature(FeatureLocation(12, 16, strand=-1), type="CDS")],
                     annotations={"topology": "circular", "molecule_type": "DNA"},
                     letter_annotations={"phred_quality": list(range(16))})
    cr = CircularRecord(base)
    emit("init", show_record(cr), show_record(base))
    for topology in ("linear", "Linear", "LINEAR", "circular", "Circular"):
        attempt("init topology " + topology, lambda: show_record(CircularRecord(Seq("ACGT"), id="t", annotations={"topology": topology})))
        attempt("init record topology " + topology, lambda: show_record(CircularRecord(SeqRecord(Seq("ACGT"), id="t", annotations={"topology": topology}))))
    attempt("init no annotations", lambda: show_record(CircularRecord(Seq("ACGT"))))
    for k in (-20, -3, -1, 0, 1, 4, 15, 16, 17, 40):
        attempt("rshift %d" % k, lambda: show_record(cr >> k))
        attempt("lshift %d" % k, lambda: show_record(cr << k))
    attempt("slice", lambda: show_record(cr[2:9]))
    attempt("item", lambda: cr[3])
    attempt("rc", lambda: show_record(cr.reverse_complement()))
    attempt("rc all", lambda: show_record(cr.reverse_complement(id=True, name=True, description=True, annotations=True, dbxrefs=True)))
    attempt("rc positional", lambda: show_record(cr.reverse_complement("newid", "newname", False, False, True, False, True)))
    attempt("add", lambda: cr + cr)
    attempt("radd", lambda: "AC" + cr)
    attempt("contains", lambda: ("CCAT" in cr, "ATGCATGCAAGGTTCCA" in cr, "GGTT" in cr))
    emit("record untouched", show_record(cr))

    # regex
    for pattern in ("AA(NN)", "GG(N*)CC", "(ATG)(N*)(TCC)", "RYK(N)MSW"):
        rx = DNARegex(pattern)
        emit("pattern", rx.pattern, rx.regex.pattern)
        for target in (Seq("ATGCAGCATA"), Seq("atgcaagcata"), base, cr, cr >> 5, SeqRecord(Seq("CCATGAAGGT"), id="p")):
            for kwargs in ({}, {"linear": False}, {"pos": 3}, {"pos": 2, "endpos": 6}, {"linear": False, "pos": 7}):
                def go():
                    m = rx.search(target, **kwargs)
                    if m is None:
                        return None
                    groups = []
                    for i in range(m.match.re.groups + 1):
                        g = m.group(i)
                        groups.append((m.span(i), str(g.seq) if isinstance(g, SeqRecord) else str(g), type(g).__name__))
                    return (m.start(), m.end(), groups)
                attempt("search %s %s %r" % (pattern, type(target).__name__, sorted(kwargs.items())), go)
                count += 1
    attempt("search str", lambda: DNARegex("NN").search("ACGT"))

    digest = hashlib.sha256("\n".join(LOG).encode("utf-8")).hexdigest()
    if "--dump" in sys.argv:
        sys.stdout.write("\n".join(LOG) + "\n")
    print("%d scenarios, %d log lines, digest %s" % (count, len(LOG), digest))


if __name__ == "__main__":
    main()
