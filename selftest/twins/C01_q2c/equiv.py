# coding: utf-8
"""C01 differential test: digest of everything observable around assembly.

Prints one line ``DIGEST <sha256> (<n> observations)``; the line must be the
same on the pristine tree and with clean.diff applied.  ``--dump FILE`` writes
the individual observations for diffing.
"""
import copy
import hashlib
import random
import re
import sys
import warnings

sys.path.insert(0, "/tmp/agents6/C01")
import tests  # noqa: F401,E402

from Bio.Seq import Seq  # noqa: E402
from Bio.SeqRecord import SeqRecord  # noqa: E402
from Bio.SeqFeature import (  # noqa: E402
    SeqFeature,
    FeatureLocation,
    CompoundLocation,
    Reference,
)
from Bio.Restriction import AllEnzymes, BsaI, BsmBI, BbsI, BpiI, FokI, StsI  # noqa: E402
from Bio.Restriction import EcoRI, EcoRV, SapI, BsrDI, BtsCI  # noqa: E402

from moclo import errors  # noqa: E402
from moclo.record import CircularRecord  # noqa: E402
from moclo.regex import DNARegex  # noqa: E402
from moclo.core import (  # noqa: E402
    AbstractModule,
    AbstractVector,
    AbstractPart,
    CassetteVector,
    EntryVector,
    Entry,
    Product,
    Cassette,
)
from moclo.kits import ytk, cidar, ecoflex  # noqa: E402
from moclo.kits import moclo as moclokit  # noqa: E402

OBS = []
_ADDR = re.compile(r"0x[0-9a-fA-F]+")


def note(*items):
    OBS.append(_ADDR.sub("0x?", " | ".join(str(i) for i in items)))


_COMP = {"A": "T", "C": "G", "G": "C", "T": "A", "a": "t", "c": "g", "g": "c", "t": "a"}


def rc(text):
    return "".join(_COMP[c] for c in reversed(text))


def rand_dna(rng, length, alphabet="ACGT"):
    return "".join(rng.choice(alphabet) for _ in range(length))


def rotate(text, by):
    by %= len(text)
    return text[by:] + text[:by]


def mixcase(rng, text, how):
    if how == "upper":
        return text
    if how == "lower":
        return text.lower()
    return "".join(c.lower() if rng.random() < 0.5 else c for c in text)


# --- describing results -------------------------------------------------------


def show_feature(feat):
    quals = sorted((k, str(v)) for k, v in feat.qualifiers.items())
    return "{}@{}#{}{}".format(feat.type, feat.location, feat.id, quals)


def show_record(rec):
    if rec is None:
        return "None"
    ants = sorted((k, str(v)) for k, v in rec.annotations.items())
    refs = [str(r) for r in rec.annotations.get("references", [])]
    return " ; ".join(
        [
            type(rec).__name__,
            str(rec.seq),
            str(rec.id),
            str(rec.name),
            str(rec.description),
            str(rec.dbxrefs),
            str([show_feature(f) for f in rec.features]),
            str(ants),
            str(refs),
            str(sorted(rec.letter_annotations.items())),
        ]
    )


def attempt(label, func, *args, **kwargs):
    """Run ``func`` and record result or exception, and the warnings raised."""
    shower = kwargs.pop("show", str)
    with warnings.catch_warnings(record=True) as caught:
        warnings.simplefilter("always")
        try:
            outcome = "-> " + shower(func(*args, **kwargs))
        except Exception as err:  # noqa
            outcome = "!! {}: {} {}".format(
                type(err).__name__, err, sorted(getattr(err, "__dict__", {}))
            )
    warned = [
        "{}: {}".format(w.category.__name__, w.message)
        for w in caught
        if "moclo" in w.category.__module__
    ]
    note(label, outcome, warned)


# --- 1. structures of every enzyme -------------------------------------------


def structures():
    for enz in sorted(AllEnzymes, key=str):
        ns = {"cutter": enz}
        mod = type(str("M"), (AbstractModule,), dict(ns))
        vec = type(str("V"), (AbstractVector,), dict(ns))
        attempt("structure module {}".format(enz), mod.structure)
        attempt("structure vector {}".format(enz), vec.structure)
        # twice: a second class with the same enzyme
        attempt("structure module' {}".format(enz), type(str("M2"), (Product,), dict(ns)).structure)
        if not enz.is_unknown() and not enz.is_blunt() and enz.ovhgseq is not None:
            size = len(enz.ovhgseq)
            sig = {"signature": ("ACGTA"[:size], "TTGCA"[:size])}
            sig.update(ns)
            pm = type(str("PM"), (AbstractPart, Entry), dict(sig))
            pv = type(str("PV"), (AbstractPart, CassetteVector), dict(sig))
            attempt("structure part module {}".format(enz), pm.structure)
            attempt("structure part vector {}".format(enz), pv.structure)
    nosig = type(str("NoSig"), (AbstractPart, Entry), {"cutter": BsaI})
    attempt("structure part without signature", nosig.structure)
    lone = type(str("Lone"), (AbstractPart,), {"cutter": BsaI, "signature": ("AAAA", "CCCC")})
    attempt("structure part neither module nor vector", lone.structure)
    attempt("structure abstract module", AbstractModule.structure)
    attempt("structure abstract vector", AbstractVector.structure)
    for kit in (ytk, cidar, ecoflex, moclokit):
        for name in sorted(dir(kit)):
            obj = getattr(kit, name)
            if isinstance(obj, type) and hasattr(obj, "structure"):
                attempt("kit structure {}.{}".format(kit.__name__, name), obj.structure)
                attempt(
                    "kit regex {}.{}".format(kit.__name__, name),
                    lambda o=obj: o._get_regex().regex.pattern,
                )


# --- 2. regex -----------------------------------------------------------------


def show_match(match):
    if match is None:
        return "None"
    out = [str(match.start()), str(match.end()), str(match.shift)]
    for index in range(match.match.re.groups + 1):
        grp = match.group(index)
        text = str(grp.seq) if isinstance(grp, SeqRecord) else str(grp)
        out.append("{}:{}:{}:{}".format(index, match.span(index), type(grp).__name__, text))
    return " ".join(out)


def regexes(rng):
    patterns = [
        "AA(NN)",
        "GGTCTCN(NNNN)(NN*N)(NNNN)NGAGACC",
        "N(NNNN)(NGAGACCN*GGTCTCN)(NNNN)N",
        "(RY)(N*?)(SW)",
        "GA(B)(D)(H)(K)(M)(V)",
        "ac(gt)",
        "(A)|(C)",
        "NN$",
        "",
    ]
    for pattern in patterns:
        attempt("transcribe {!r}".format(pattern), DNARegex._transcribe, pattern)
        attempt("compiled {!r}".format(pattern), lambda: DNARegex(pattern).regex.pattern)
        attempt("pattern {!r}".format(pattern), lambda: DNARegex(pattern).pattern)
    for trial in range(160):
        pattern = rng.choice(patterns[:7])
        rx = DNARegex(pattern)
        text = rand_dna(rng, rng.randint(1, 40))
        if rng.random() < 0.5:
            # plant something the longer patterns can match, around the origin
            core = "GGTCTCA" + rand_dna(rng, 4) + rand_dna(rng, rng.randint(2, 9)) + rand_dna(rng, 4) + "TGAGACC"
            text = rotate(core + rand_dna(rng, rng.randint(0, 8)), rng.randrange(len(core)))
        text = mixcase(rng, text, rng.choice(["upper", "upper", "lower", "mixed"]))
        kind = rng.choice(["seq", "record", "circular"])
        if kind == "seq":
            subject = Seq(text)
        elif kind == "record":
            subject = SeqRecord(Seq(text), id="r")
        else:
            subject = CircularRecord(Seq(text), id="c")
        for linear in (True, False):
            for pos, endpos in [(0, None), (rng.randint(-3, 6), None), (0, rng.randint(0, 45)), (2, 5)]:
                kwargs = {"pos": pos, "linear": linear}
                if endpos is not None:
                    kwargs["endpos"] = endpos
                attempt(
                    "search {} {!r} {} {} {}".format(trial, pattern, kind, text, sorted(kwargs.items())),
                    rx.search,
                    subject,
                    show=show_match,
                    **kwargs
                )
    rx = DNARegex("NN")
    for bad in ["ATGC", None, 12, b"ATGC"]:
        attempt("search bad type {!r}".format(bad), rx.search, bad)
    attempt("search empty", rx.search, Seq(""), show=show_match)
    attempt("search empty circular", rx.search, Seq(""), linear=False, show=show_match)


# --- 3. circular records --------------------------------------------------------


def records(rng):
    for trial in range(60):
        size = rng.randint(1, 30)
        text = rand_dna(rng, size)
        feats = []
        for _ in range(rng.randint(0, 4)):
            a = rng.randint(0, size)
            b = rng.randint(a, size)
            loc = FeatureLocation(a, b, strand=rng.choice([1, -1, None]))
            if rng.random() < 0.3 and b < size:
                c = rng.randint(b, size)
                d = rng.randint(c, size)
                if d > c and b > a:
                    loc = CompoundLocation([loc, FeatureLocation(c, d, strand=loc.strand)])
            feats.append(
                SeqFeature(loc, type=rng.choice(["CDS", "misc", "source"]), id="f", qualifiers={"label": ["x"]})
            )
        if rng.random() < 0.4:
            feats.append(SeqFeature(FeatureLocation(0, size), type="source", qualifiers={"plasmid": "p"}))
        if rng.random() < 0.2:
            feats.append(SeqFeature(None, type="nowhere"))
        rec = CircularRecord(
            Seq(text),
            id="rec",
            name="nm",
            description="ds",
            features=feats,
            annotations={"topology": "circular", "k": [1, 2]},
            letter_annotations={"q": list(range(size))},
        )
        before = show_record(rec)
        for by in [0, 1, size, size - 1, -1, -size - 2, 3 * size + 1, rng.randint(-50, 50)]:
            attempt("rshift {} {}".format(trial, by), rec.__rshift__, by, show=show_record)
            attempt("lshift {} {}".format(trial, by), rec.__lshift__, by, show=show_record)
        attempt("same object on null shift {}".format(trial), lambda: (rec >> 0) is rec and (rec << size) is rec)
        attempt("contains {}".format(trial), lambda: (rotate(text, 3)[: max(1, size - 1)] in rec, text + "A" in rec))
        attempt("slice {}".format(trial), lambda: rec[1 : size // 2 + 1], show=show_record)
        attempt("revcomp {}".format(trial), rec.reverse_complement, show=show_record)
        note("record untouched {}".format(trial), before == show_record(rec))
    attempt("add", lambda: CircularRecord(Seq("ATGC")) + CircularRecord(Seq("ATGC")))
    attempt("radd", lambda: "AT" + CircularRecord(Seq("ATGC")))
    attempt("linear", CircularRecord, SeqRecord(Seq("ATGC"), annotations={"topology": "linear"}))
    attempt("empty shift", lambda: CircularRecord(Seq("")) >> 1)


# --- 4. assemblies --------------------------------------------------------------

ENZYMES = [BsaI, BsmBI, BbsI, BpiI, FokI, StsI, SapI]
for _name in ["BceAI", "BcefI", "BspD6I", "PleI", "BscAI", "SfaNI", "AarI", "BtgZI", "HgaI", "BsmAI", "BccI", "BspMI"]:
    ENZYMES.append(AllEnzymes.get(_name))
ENZYMES = [e for e in ENZYMES if e is not None]

KITS = {}


def kit(enz):
    if enz not in KITS:
        KITS[enz] = (
            type(str("{}Vec".format(enz)), (CassetteVector,), {"cutter": enz}),
            type(str("{}Mod".format(enz)), (Entry,), {"cutter": enz}),
        )
    return KITS[enz]


def pick_overhangs(rng, size, wanted):
    chosen = []
    for _ in range(10000):
        if len(chosen) == wanted:
            break
        cand = rand_dna(rng, size)
        if cand == rc(cand) or cand in chosen or rc(cand) in chosen:
            continue
        chosen.append(cand)
    return chosen


def reference(title):
    ref = Reference()
    ref.title = title
    ref.authors = "Doe J."
    return ref


def decorate(rng, text, ident, topology=True):
    """A CircularRecord with features, some of them citing references."""
    size = len(text)
    refs = [reference("{} ref {}".format(ident, i)) for i in range(rng.randint(0, 3))]
    feats = []
    for j in range(rng.randint(0, 4)):
        a = rng.randint(0, size - 1)
        b = rng.randint(a + 1, size)
        quals = {"label": ["{}-{}".format(ident, j)]}
        if refs and rng.random() < 0.7:
            quals["citation"] = [
                "[{}]".format(rng.randint(1, len(refs))) for _ in range(rng.randint(1, 2))
            ]
        feats.append(SeqFeature(FeatureLocation(a, b, strand=rng.choice([1, -1])), type="misc_feature", qualifiers=quals))
    ants = {"references": refs} if refs or rng.random() < 0.5 else {}
    if topology:
        ants["topology"] = "circular"
    return CircularRecord(Seq(text), id=ident, name=ident, description="d", features=feats, annotations=ants)


def build(rng, enz, chain):
    site, spacer, ovlen = enz.site, enz.fst5 - enz.size, abs(enz.ovhg)
    ovs = pick_overhangs(rng, ovlen, chain + 1)
    plasmids = []
    for i in range(chain):
        target = rand_dna(rng, rng.randint(2, 25))
        plasmids.append(
            "".join(
                [site, rand_dna(rng, spacer), ovs[i], target, ovs[i + 1]]
                + [rand_dna(rng, spacer), rc(site), rand_dna(rng, rng.randint(0, 20))]
            )
        )
    vector = "".join(
        [ovs[0], rand_dna(rng, spacer), rc(site), rand_dna(rng, rng.randint(0, 20)), site]
        + [rand_dna(rng, spacer), ovs[chain], rand_dna(rng, rng.randint(2, 25))]
    )
    return vector, plasmids


def assemblies(rng):
    for trial in range(260):
        enz = ENZYMES[trial % len(ENZYMES)]
        vec_cls, mod_cls = kit(enz)
        ovlen = abs(enz.ovhg)
        chain = rng.randint(1, {1: 1, 2: 3}.get(ovlen, 5))
        vector, plasmids = build(rng, enz, chain)
        scenario = rng.choice(
            ["good"] * 6
            + ["missing", "unused", "duplicate", "revcomp", "samevector", "extrasite", "broken", "twice", "badcitation", "plain"]
        )
        if scenario == "missing" and chain > 1:
            del plasmids[rng.randrange(chain)]
        elif scenario == "unused":
            extra_vec, extra = build(rng, enz, 1)
            plasmids.append(extra[0])
        elif scenario == "duplicate":
            plasmids.append(plasmids[rng.randrange(len(plasmids))].replace("A", "C", 1)[::1])
        elif scenario == "revcomp":
            donor = plasmids[0]
            site_end = enz.fst5
            plasmids.append(donor[:site_end] + rc(donor[site_end : site_end + ovlen]) + donor[site_end + ovlen :])
        elif scenario == "samevector":
            spacer = enz.fst5 - enz.size
            vector = vector[:ovlen] + vector[ovlen:]
            tail = vector.index(enz.site, ovlen) + enz.size + spacer
            vector = vector[:tail] + vector[:ovlen] + vector[tail + ovlen :]
        elif scenario == "extrasite":
            victim = rng.randrange(len(plasmids) + 1)
            if victim == len(plasmids):
                vector = vector + enz.site + "A"
            else:
                plasmids[victim] = plasmids[victim] + "T" + enz.site
        elif scenario == "broken":
            victim = rng.randrange(len(plasmids) + 1)
            if victim == len(plasmids):
                vector = vector.replace(enz.site, "A" * enz.size)
            else:
                plasmids[victim] = plasmids[victim].replace(rc(enz.site), "A" * enz.size)
        case = rng.choice(["upper", "upper", "lower", "mixed"])
        vec_text = mixcase(rng, rotate(vector, rng.choice([0, 1, len(vector) - 1, rng.randrange(len(vector))])), case)
        vec_rec = decorate(rng, vec_text, "vec", topology=rng.random() < 0.7)
        mod_recs = []
        for i, plasmid in enumerate(plasmids):
            by = rng.choice([0, 1, len(plasmid) - 1, enz.size, enz.fst5, rng.randrange(len(plasmid))])
            mod_recs.append(decorate(rng, mixcase(rng, rotate(plasmid, by), case), "mod{}".format(i), topology=rng.random() < 0.7))
        if scenario == "badcitation":
            victim = rng.choice(mod_recs + [vec_rec])
            victim.features.append(
                SeqFeature(FeatureLocation(0, 1, strand=1), type="misc_feature", qualifiers={"citation": [rng.choice(["nope", "[7]", "[]"])]})
            )
        if scenario == "plain":
            victim = rng.randrange(len(mod_recs) + 1)
            if victim == len(mod_recs):
                vec_rec = SeqRecord(vec_rec.seq, id="vec", name="vec", annotations=rng.choice([{}, {"topology": "linear"}]))
            else:
                mod_recs[victim] = SeqRecord(mod_recs[victim].seq, id="plain", name="plain", annotations=rng.choice([{}, {"topology": "linear"}, {"topology": "circular"}]))
        order = list(range(len(mod_recs)))
        rng.shuffle(order)
        vec = vec_cls(vec_rec)
        mods = [mod_cls(mod_recs[i]) for i in order]
        label = "assembly {} {} {} chain={} case={}".format(trial, enz, scenario, chain, case)
        kwargs = rng.choice([{}, {}, {"id": "myid"}, {"name": "myname", "id": "x"}])
        attempt(label, vec.assemble, *mods, show=show_record, **kwargs)
        if scenario == "twice":
            attempt(label + " again", vec.assemble, *mods, show=show_record, **kwargs)
        for entity in [vec] + mods:
            what = "{} {}".format(label, entity.record.id)
            note(what, "state", show_record(entity.record), str(entity.seq))
            attempt(what + " valid", entity.is_valid)
            attempt(what + " valid again", entity.is_valid)
            attempt(what + " start", entity.overhang_start)
            attempt(what + " end", entity.overhang_end)
            attempt(what + " target", entity.target_sequence, show=show_record)
            if isinstance(entity, AbstractVector):
                attempt(what + " placeholder", entity.placeholder_sequence, show=show_record)
            note(what, "state after accessors", show_record(entity.record))


# --- 5. class machinery ---------------------------------------------------------


def classes(rng):
    for cls in [AbstractModule, AbstractVector, Entry, EntryVector, Cassette, AbstractPart]:
        attempt("instantiate abstract {}".format(cls.__name__), cls, SeqRecord(Seq("ATGC")))
    for enz in [EcoRV, BsrDI, BtsCI, EcoRI]:
        for base in (Entry, CassetteVector):
            made = type(str("Odd{}".format(base.__name__)), (base,), {"cutter": enz})
            attempt("instantiate {} {}".format(enz, base.__name__), lambda: type(made(SeqRecord(Seq("ATGC")))).__name__)
            attempt("structure {} {}".format(enz, base.__name__), made.structure)
    # 3' overhang cutters still describe a fragment
    for enz in [BsrDI, BtsCI]:
        vec_cls, mod_cls = kit(enz)
        for trial in range(6):
            body = rand_dna(rng, 40)
            text = rotate(enz.site + body + rc(enz.site) + rand_dna(rng, 12), rng.randrange(20))
            for cls in (vec_cls, mod_cls):
                entity = cls(CircularRecord(Seq(text), id="three"))
                for name in ["is_valid", "overhang_start", "overhang_end", "target_sequence"]:
                    attempt("3' {} {} {} {}".format(enz, cls.__name__, trial, name), getattr(entity, name), show=lambda v: show_record(v) if isinstance(v, SeqRecord) else str(v))
                if cls is vec_cls:
                    attempt("3' {} placeholder {}".format(enz, trial), entity.placeholder_sequence, show=show_record)
    # kits deriving from kits, redeclaring the cutter or the structure
    for first, second in [(BsaI, BsmBI), (FokI, StsI), (BbsI, BsaI), (StsI, FokI)]:
        for base in (Entry, CassetteVector):
            parent = type(str("Parent"), (base,), {"cutter": first})
            vector, plasmids = build(rng, first, 1)
            text = vector if base is CassetteVector else plasmids[0]
            attempt("parent valid", parent(CircularRecord(Seq(text), id="p")).is_valid)
            child = type(str("Child"), (parent,), {"cutter": second})
            grand = type(str("Grand"), (child,), {})
            vector2, plasmids2 = build(rng, second, 1)
            text2 = vector2 if base is CassetteVector else plasmids2[0]
            for cls in (parent, child, grand):
                for t in (text, text2):
                    entity = cls(CircularRecord(Seq(t), id="k"))
                    attempt("derived {} {} {} valid".format(first, second, cls.__name__), entity.is_valid)
                    attempt("derived {} {} {} start".format(first, second, cls.__name__), entity.overhang_start)
                    attempt("derived {} {} {} target".format(first, second, cls.__name__), entity.target_sequence, show=show_record)
                attempt("derived regex {}".format(cls.__name__), lambda c=cls: c._get_regex().pattern)
    preset = type(str("Preset"), (Entry,), {"cutter": BsaI, "_regex": DNARegex("(AA)(CC)(GG)")})
    attempt("preset regex", lambda: preset._get_regex().pattern)
    attempt("preset child regex", lambda: type(str("PresetChild"), (preset,), {})._get_regex().pattern)
    # parts
    part = type(str("APart"), (AbstractPart, Entry), {"cutter": BsaI, "signature": ("AACC", "GGTT")})
    sub1 = type(str("SubPart1"), (part,), {"signature": ("AACC", "TTGG")})
    sub2 = type(str("SubPart2"), (part,), {"signature": ("ACCA", "GGTT")})
    for up, down in [("AACC", "GGTT"), ("AACC", "TTGG"), ("ACCA", "GGTT"), ("CCCC", "AAAA")]:
        text = "GGTCTCA" + up + rand_dna(rng, 12, "AT") + down + "TGAGACC" + rand_dna(rng, 9, "AT")
        rec = CircularRecord(Seq(rotate(text, rng.randrange(len(text)))), id="part")
        attempt("characterize {} {}".format(up, down), lambda: type(part.characterize(rec)).__name__)
        for cls in (part, sub1, sub2):
            attempt("part valid {} {} {}".format(cls.__name__, up, down), cls(rec).is_valid)


def main():
    rng = random.Random(1701)
    structures()
    regexes(rng)
    records(rng)
    assemblies(rng)
    classes(rng)
    if "--dump" in sys.argv:
        with open(sys.argv[sys.argv.index("--dump") + 1], "w") as handle:
            handle.write("\n".join(OBS) + "\n")
    digest = hashlib.sha256("\n".join(OBS).encode("utf-8")).hexdigest()
    print("DIGEST {} ({} observations)".format(digest, len(OBS)))


if __name__ == "__main__":
    main()
