# coding: utf-8
"""Differential test: prints a digest of the observable behaviour of the code
the rotation-invariance property (C02) depends on.  The digest must be the
same on the pristine tree and with clean.diff applied.

Run as: cd /tmp/agents6/C02 && /venv/bin/python pairs_out/C02_q1/equiv.py
"""
from __future__ import print_function

import hashlib
import random
import re
import sys
import warnings

sys.path.insert(0, "/tmp/agents6/C02")
import tests  # noqa: E402,F401  (splices the kits into the moclo namespace)

from Bio.Restriction import BsaI, BpiI, BsmBI, SapI, AarI, BtsI  # noqa: E402
from Bio.Seq import Seq  # noqa: E402
from Bio.SeqFeature import (  # noqa: E402
    SeqFeature,
    FeatureLocation,
    CompoundLocation,
    BeforePosition,
    AfterPosition,
    ExactPosition,
)
from Bio.SeqRecord import SeqRecord  # noqa: E402

from moclo import errors  # noqa: E402
from moclo.core import (  # noqa: E402
    Product,
    Entry,
    Cassette,
    EntryVector,
    CassetteVector,
    AbstractPart,
)
from moclo.record import CircularRecord  # noqa: E402
from moclo.regex import DNARegex, SeqMatch  # noqa: E402

RNG = random.Random(20260927)
LOG = []


# --- serialisation ----------------------------------------------------------


def ser_loc(loc):
    if loc is None:
        return "None"
    return "|".join(
        "{!r}:{!r}:{!r}:{!r}:{!r}".format(p.start, p.end, p.strand, p.ref, p.ref_db)
        for p in loc.parts
    ) + "/" + type(loc).__name__


def ser_feature(f):
    quals = sorted((k, repr(v)) for k, v in f.qualifiers.items())
    return "F({},{},{},{})".format(f.type, f.id, ser_loc(f.location), quals)


def ser(obj):
    if isinstance(obj, SeqRecord):
        return "{}[{}|{}|{}|{}|{}|{}|{}|{}]".format(
            type(obj).__name__,
            str(obj.seq),
            obj.id,
            obj.name,
            obj.description,
            list(obj.dbxrefs),
            [ser_feature(f) for f in obj.features],
            sorted((k, repr(v)) for k, v in obj.annotations.items()),
            sorted((k, repr(v)) for k, v in obj.letter_annotations.items()),
        )
    if isinstance(obj, Seq):
        return "Seq[{}]".format(str(obj))
    if isinstance(obj, SeqMatch):
        spans = [obj.span(i) for i in range(obj.match.re.groups + 1)]
        groups = [ser(obj.group(i)) for i in range(obj.match.re.groups + 1)]
        return "Match[{} {} {} {} {} {}]".format(
            type(obj).__name__, obj.start(), obj.end(), spans, groups, obj.rec is not None
        )
    if isinstance(obj, (list, tuple)):
        return "[" + ",".join(ser(x) for x in obj) + "]"
    return repr(obj)


def observe(label, func, *args, **kwargs):
    """Call ``func`` and log its result / exception / warnings."""
    with warnings.catch_warnings(record=True) as caught:
        warnings.simplefilter("always")
        try:
            out = "OK " + ser(func(*args, **kwargs))
        except Exception as exc:  # noqa
            out = "EXC {} {}".format(type(exc).__name__, str(exc))
    warns = [
        "{}:{}".format(w.category.__name__, str(w.message))
        for w in caught
        if "pkg_resources" not in str(w.message)
    ]
    out = re.sub(r"0x[0-9a-fA-F]+", "0x?", out)  # object addresses are not stable
    LOG.append("{} -> {} {}".format(label, out, warns))


# --- generators -------------------------------------------------------------


def revcomp(s):
    return str(Seq(s).reverse_complement())


def rand_dna(n, forbidden=()):
    while True:
        s = "".join(RNG.choice("ACGT") for _ in range(n))
        d = (s + s).upper()
        if not any(f in d or revcomp(f) in d for f in forbidden):
            return s


def site(cutter, overhang):
    """Forward recognition site, spacer and the given overhang (5' cutters)."""
    e = cutter.elucidate()
    cut5, cut3 = e.index("^"), e.index("_")
    assert cut5 < cut3
    head = e[:cut5]
    out = "".join(RNG.choice("ACGT") if c == "N" else c for c in head)
    return out + overhang


def mixed_case(s):
    return "".join(c.lower() if RNG.random() < 0.4 else c for c in s)


def module_seq(cutter, o1, o2, target, pad=20):
    forb = (cutter.site,)
    left = rand_dna(pad, forb)
    right = rand_dna(pad, forb)
    return left + site(cutter, o1) + target + revcomp(site(cutter, revcomp(o2))) + right


def vector_seq(cutter, o1, o2, placeholder, pad=25):
    forb = (cutter.site,)
    left = rand_dna(pad, forb)
    right = rand_dna(pad, forb)
    # the overhangs lie outside of the sites in a vector
    up = revcomp(site(cutter, revcomp(o1)))
    down = site(cutter, o2)
    return left + up + placeholder + down + right


def features_for(n):
    feats = []
    kinds = ["CDS", "promoter", "misc_feature", "source", "terminator"]
    for _ in range(RNG.randint(0, 6)):
        a = RNG.randint(0, n - 1)
        b = RNG.randint(a, n)
        strand = RNG.choice([1, -1, None])
        roll = RNG.random()
        if roll < 0.15:
            loc = FeatureLocation(BeforePosition(a), AfterPosition(b), strand=strand)
        elif roll < 0.3 and a > 0 and b < n:
            loc = CompoundLocation(
                [
                    FeatureLocation(b, n, strand=strand),
                    FeatureLocation(0, a, strand=strand),
                ]
            ) if b < n and a > 0 else FeatureLocation(a, b, strand=strand)
        elif roll < 0.4:
            loc = FeatureLocation(0, n, strand=strand)
        else:
            loc = FeatureLocation(ExactPosition(a), ExactPosition(b), strand=strand)
        quals = {"label": ["f{}".format(len(feats))]}
        if RNG.random() < 0.3:
            quals["citation"] = ["[1]"]
        feats.append(SeqFeature(loc, type=RNG.choice(kinds), qualifiers=quals))
    return feats


def circular(seq, id_, with_features=True, refs=True):
    ann = {"topology": "circular", "molecule_type": "DNA"}
    if refs:
        ann["references"] = ["ref-A", "ref-B"]
    feats = features_for(len(seq)) if with_features else []
    if not refs:
        for f in feats:
            f.qualifiers.pop("citation", None)
    rec = CircularRecord(Seq(seq), id=id_, name=id_, description="d " + id_,
                         features=feats, annotations=ann)
    return rec


def snapshot(records):
    return [ser(r) for r in records]


# --- classes under test -----------------------------------------------------


def make_classes(cutter, tag):
    mod = type(str("Mod" + tag), (Entry,), {"cutter": cutter})
    prod = type(str("Prod" + tag), (Product,), {"cutter": cutter})
    vec = type(str("Vec" + tag), (EntryVector,), {"cutter": cutter})
    cvec = type(str("CVec" + tag), (CassetteVector,), {"cutter": cutter})
    return mod, prod, vec, cvec


class Custom3Module(Cassette):
    """A 3' overhang cutter with a hand-written (balanced) structure."""

    cutter = BtsI

    @staticmethod
    def structure():
        return "GCAGTG(NN)(NN*N)(NN)CACTGC"


class Custom3Vector(CassetteVector):
    cutter = BtsI

    @staticmethod
    def structure():
        return "(NN)(CACTGCN*GCAGTG)(NN)"


class SigPart(AbstractPart, Entry):
    cutter = BsaI
    signature = ("ATGC", "GGTA")


class SigVector(AbstractPart, EntryVector):
    cutter = BsaI
    signature = ("ATGC", "GGTA")


class NoCutter(Entry):
    pass


# --- scenarios --------------------------------------------------------------


def scenario_regex():
    pats = ["AA(NN)", "GGTCTCN(NNNN)(NN*N)(NNNN)NGAGACC", "(A)(C)?G", "RYN(W*)S", "N(NN)N"]
    for pi, pat in enumerate(pats):
        observe("rx.new.%d" % pi, lambda p=pat: (DNARegex(p).pattern, DNARegex(p).regex.pattern))
        rx = DNARegex(pat)
        for k in range(14):
            n = RNG.randint(1, 40)
            s = rand_dna(n)
            if k % 3 == 0:
                s = mixed_case(s)
            if k % 4 == 0 and n > 12:
                s = s[:4] + "GAGACC" + s[10:] if pi == 1 else s
            seq = Seq(s)
            srec = SeqRecord(Seq(s), id="s%d" % k)
            crec = CircularRecord(Seq(s), id="c%d" % k, features=features_for(n))
            for name, obj in (("seq", seq), ("srec", srec), ("crec", crec)):
                for linear in (True, False):
                    observe("rx.%d.%d.%s.%s" % (pi, k, name, linear), rx.search, obj, linear=linear)
                observe("rx.%d.%d.%s.pos" % (pi, k, name), rx.search, obj, 2, 7, False)
                observe("rx.%d.%d.%s.pos2" % (pi, k, name), rx.search, obj, n - 1)
                observe("rx.%d.%d.%s.end0" % (pi, k, name), rx.search, obj, 0, 0)
    observe("rx.type.str", DNARegex("NN").search, "ATGC")
    observe("rx.type.none", DNARegex("NN").search, None)
    observe("rx.empty", DNARegex("NN").search, Seq(""))
    # the full set of wrapping situations of a group, through the public API
    rx = DNARegex("AC(GT)(N*)(TT)CA")
    base = "ACGTGGGGTTCA" + "CCCCC"
    for k in range(len(base)):
        rot = base[-k:] + base[:-k] if k else base
        observe("rx.wrap.seq.%d" % k, rx.search, Seq(rot), linear=False)
        observe("rx.wrap.crec.%d" % k, rx.search, CircularRecord(Seq(rot), id="w", features=[
            SeqFeature(FeatureLocation(0, 3, strand=1), type="misc_feature")]))
        observe("rx.wrap.srec.%d" % k, rx.search,
                SeqRecord(Seq(rot), id="w", annotations={"topology": "circular"}), linear=False)


def scenario_rotation():
    for k in range(25):
        n = RNG.randint(4, 60)
        rec = circular(rand_dna(n), "rot%d" % k)
        if k % 3 == 0:
            rec.letter_annotations["phred_quality"] = [RNG.randint(0, 40) for _ in range(n)]
        if k % 5 == 0:
            rec.features.append(SeqFeature(None, type="misc_feature"))
        before = snapshot([rec])
        for shift in (0, 1, n - 1, n, n + 3, -2, RNG.randint(0, 3 * n)):
            observe("rot.%d.r%d" % (k, shift), lambda s=shift: rec >> s)
            observe("rot.%d.l%d" % (k, shift), lambda s=shift: rec << s)
            observe("rot.%d.rr%d" % (k, shift), lambda s=shift: (rec >> s) >> s)
        observe("rot.%d.contains" % k, lambda: ("AC" in rec, str(rec.seq[-2:] + rec.seq[:2]) in rec))
        observe("rot.%d.slice" % k, lambda: rec[1:-1])
        observe("rot.%d.rc" % k, lambda: rec.reverse_complement())
        observe("rot.%d.add" % k, lambda: rec + rec)
        LOG.append("rot.%d.unchanged %s" % (k, before == snapshot([rec])))


def all_views(label, entity_cls, record):
    def run():
        e = entity_cls(record)
        out = [e.is_valid()]
        for meth in ("overhang_start", "overhang_end", "target_sequence", "placeholder_sequence"):
            f = getattr(e, meth, None)
            if f is None:
                out.append("n/a")
                continue
            try:
                out.append(ser(f()))
            except Exception as exc:  # noqa
                out.append("EXC {} {}".format(type(exc).__name__, exc))
        out.append(e.is_valid())
        return out

    observe(label, run)


def scenario_typing():
    cutters = [(BsaI, "BsaI"), (BpiI, "BpiI"), (BsmBI, "BsmBI"), (SapI, "SapI"), (AarI, "AarI")]
    for cutter, tag in cutters:
        mod, prod, vec, cvec = make_classes(cutter, tag)
        observe("struct.%s" % tag, lambda: (mod.structure(), vec.structure(), prod.structure()))
        ovlen = len(cutter.ovhgseq)
        for k in range(3):
            o1, o2 = rand_dna(ovlen), rand_dna(ovlen)
            target = rand_dna(RNG.randint(3, 25), (cutter.site,))
            ms = module_seq(cutter, o1, o2, target, pad=RNG.randint(0, 12))
            vs = vector_seq(cutter, o2, o1, rand_dna(RNG.randint(0, 15), (cutter.site,)), pad=RNG.randint(3, 14))
            if k == 1:
                ms, vs = mixed_case(ms), mixed_case(vs)
            mrec = circular(ms, "m%s%d" % (tag, k))
            vrec = circular(vs, "v%s%d" % (tag, k))
            before = snapshot([mrec, vrec])
            step = 1 if k == 0 else 3
            for r in range(0, len(ms), step):
                all_views("typ.%s.%d.mod.%d" % (tag, k, r), mod, mrec >> r)
            for r in range(0, len(vs), step):
                all_views("typ.%s.%d.vec.%d" % (tag, k, r), vec, vrec >> r)
            # wrong class / plain records / linear records
            all_views("typ.%s.%d.mod-as-vec" % (tag, k), vec, mrec)
            all_views("typ.%s.%d.vec-as-mod" % (tag, k), prod, vrec)
            plain = SeqRecord(Seq(ms), id="plain")
            all_views("typ.%s.%d.plain" % (tag, k), mod, plain)
            half = len(ms) // 2
            plainrot = SeqRecord(Seq(ms[half:] + ms[:half]), id="plainrot")
            all_views("typ.%s.%d.plainrot" % (tag, k), mod, plainrot)
            lin = SeqRecord(Seq(ms[half:] + ms[:half]), id="lin", annotations={"topology": "linear"})
            all_views("typ.%s.%d.linrot" % (tag, k), mod, lin)
            circ = SeqRecord(Seq(vs[half:] + vs[:half]), id="circ", annotations={"topology": "Circular"})
            all_views("typ.%s.%d.circrot" % (tag, k), cvec, circ)
            # an extra site inside the target makes the module illegal
            bad = module_seq(cutter, o1, o2, target + cutter.site + rand_dna(4), pad=5)
            brec = circular(bad, "bad")
            for r in (0, 7, len(bad) - 3):
                all_views("typ.%s.%d.illegal.%d" % (tag, k, r), mod, brec >> r)
            LOG.append("typ.%s.%d.unchanged %s" % (tag, k, before == snapshot([mrec, vrec])))
    # 3' overhang cutters
    observe("struct.3p", lambda: (type(str("M3"), (Entry,), {"cutter": BtsI}).structure()))
    all_views("typ.3p.default", type(str("M3"), (Entry,), {"cutter": BtsI}), circular(rand_dna(30), "x"))
    m3 = rand_dna(9, ("GCAGTG",)) + "GCAGTG" + "AC" + "TTGACCA" + "GT" + "CACTGC" + rand_dna(8, ("GCAGTG",))
    v3 = rand_dna(9, ("GCAGTG",)) + "GT" + "CACTGC" + "AAA" + "GCAGTG" + "AC" + rand_dna(8, ("GCAGTG",))
    for r in range(len(m3)):
        all_views("typ.3p.mod.%d" % r, Custom3Module, circular(m3, "m3") >> r)
    for r in range(len(v3)):
        all_views("typ.3p.vec.%d" % r, Custom3Vector, circular(v3, "v3") >> r)
    # parts with a signature
    observe("struct.sig", lambda: (SigPart.structure(), SigVector.structure()))
    ps = module_seq(BsaI, "ATGC", "GGTA", rand_dna(12, (BsaI.site,)), pad=6)
    for r in range(0, len(ps), 2):
        all_views("typ.sig.%d" % r, SigPart, circular(ps, "sig") >> r)
    observe("typ.sig.char", lambda: type(SigPart.characterize(circular(ps, "sig") >> 9)).__name__)
    observe("typ.sig.char.fail", lambda: SigPart.characterize(circular(rand_dna(40, (BsaI.site,)), "nope")))
    observe("typ.nocutter", lambda: NoCutter(circular(ps, "sig")))
    observe("typ.abstract", lambda: AbstractPart(circular(ps, "sig")))


def scenario_assembly():
    for cutter, tag in ((BsaI, "BsaI"), (BpiI, "BpiI"), (SapI, "SapI")):
        mod, prod, vec, cvec = make_classes(cutter, tag + "A")
        ovlen = len(cutter.ovhgseq)
        for k in range(4):
            nmods = RNG.randint(1, 3)
            ovs = []
            while len(ovs) < nmods + 1:
                o = rand_dna(ovlen)
                if o not in ovs and revcomp(o) not in ovs and o != revcomp(o):
                    ovs.append(o)
            mrecs = [
                circular(module_seq(cutter, ovs[i], ovs[i + 1], rand_dna(RNG.randint(4, 14), (cutter.site,)),
                                    pad=RNG.randint(2, 9)), "am%s%d_%d" % (tag, k, i))
                for i in range(nmods)
            ]
            vrec = circular(vector_seq(cutter, ovs[0], ovs[-1], rand_dna(6, (cutter.site,)), pad=8),
                            "av%s%d" % (tag, k))
            if k == 2:
                mrecs[0] = CircularRecord(Seq(mixed_case(str(mrecs[0].seq))), id=mrecs[0].id)
            for trial in range(6):
                rv = vrec >> RNG.randint(0, len(vrec) - 1) if trial else vrec
                rms = [m >> RNG.randint(0, len(m) - 1) if trial else m for m in mrecs]
                before = snapshot([rv] + rms)

                def run(rv=rv, rms=rms):
                    v = vec(rv)
                    out = v.assemble(*[mod(m) for m in rms], id="asm", name="asm")
                    return out

                observe("asm.%s.%d.%d" % (tag, k, trial), run)
                LOG.append("asm.%s.%d.%d.inputs-unchanged %s" % (tag, k, trial, before == snapshot([rv] + rms)))
            # failing assemblies
            stray = circular(module_seq(cutter, rand_dna(ovlen), rand_dna(ovlen), rand_dna(7, (cutter.site,))), "stray")
            dup = circular(module_seq(cutter, ovs[0], ovs[1], rand_dna(9, (cutter.site,))), "dup")
            before = snapshot([vrec, stray, dup] + mrecs)
            observe("asm.%s.%d.missing" % (tag, k), lambda: vec(vrec).assemble(mod(stray)))
            observe("asm.%s.%d.unused" % (tag, k),
                    lambda: vec(vrec >> 5).assemble(*[mod(m) for m in mrecs + [stray]]))
            observe("asm.%s.%d.dup" % (tag, k),
                    lambda: vec(vrec).assemble(*[mod(m) for m in mrecs + [dup]]))
            observe("asm.%s.%d.invalid" % (tag, k),
                    lambda: vec(vrec).assemble(mod(circular(rand_dna(30, (cutter.site,)), "inv"))))
            observe("asm.%s.%d.badvec" % (tag, k),
                    lambda: vec(mrecs[0]).assemble(*[mod(m) for m in mrecs]))
            same = circular(vector_seq(cutter, ovs[0], ovs[0], "", pad=8), "same")
            observe("asm.%s.%d.samevec" % (tag, k), lambda: vec(same).assemble(*[mod(m) for m in mrecs]))
            badcit = mrecs[0] >> 3
            badcit.features.append(SeqFeature(FeatureLocation(0, 2), type="misc_feature",
                                              qualifiers={"citation": ["oops"]}))
            observe("asm.%s.%d.badcit" % (tag, k),
                    lambda: vec(vrec).assemble(*[mod(m) for m in [badcit] + mrecs[1:]]))
            LOG.append("asm.%s.%d.fail-inputs-unchanged %s" % (tag, k, before == snapshot([vrec, stray, dup] + mrecs)))


def scenario_kits():
    from moclo.kits import ytk
    from moclo.registry.ytk import YTKRegistry

    reg = YTKRegistry()
    names = sorted(reg)
    for name in names[:24]:
        item = reg[name]
        rec = item.entity.record
        cls = type(item.entity)
        n = len(rec)
        for r in (0, 1, n // 3, n - 1):
            all_views("kit.%s.%d" % (name, r), cls, rec >> r)
    vec = reg["pYTK095"].entity
    parts = [reg[x].entity for x in ("pYTK002", "pYTK047", "pYTK072")]
    for r in (0, 17, 1000):
        def run(r=r):
            v = type(vec)(vec.record >> r)
            ms = [type(p)(p.record >> (r * 3 + i)) for i, p in enumerate(parts)]
            return v.assemble(*ms)
        observe("kit.asm.%d" % r, run)
    observe("kit.struct", lambda: [c.structure() for c in (ytk.YTKPart1, ytk.YTKPart8, ytk.YTKProduct,
                                                           ytk.YTKEntryVector, ytk.YTKPart234r)])


class OptModule(Entry):
    """Optional flanks: unmatched groups report a (-1, -1) span."""

    cutter = BsaI

    @staticmethod
    def structure():
        return "(AAAA)?(CCN*GG)(TTTT)?"


class OptVector(EntryVector):
    cutter = BsaI

    @staticmethod
    def structure():
        return "(AAAA)?(GGN*CC)(TTTT)?"


def scenario_classes():
    from moclo._utils import isabstract
    from moclo.core import AbstractModule, AbstractVector, Device, DeviceVector
    from moclo.core._structured import StructuredRecord
    from moclo.kits import ytk, cidar, ecoflex

    public = [AbstractModule, AbstractVector, AbstractPart, Product, Entry, Cassette, Device,
              EntryVector, CassetteVector, DeviceVector, SigPart, SigVector, NoCutter,
              Custom3Module, Custom3Vector, ytk.YTKPart1, ytk.YTKPart8, ytk.YTKProduct,
              ytk.YTKCassetteVector, cidar.CIDAREntryVector, ecoflex.EcoFlexPromoter]
    rec = circular(rand_dna(40, (BsaI.site,)), "cls")
    for cls in public:
        observe("cls.%s.attrs" % cls.__name__, lambda: (
            cls._level, cls.cutter is NotImplemented or str(cls.cutter), isabstract(cls),
            issubclass(cls, StructuredRecord), issubclass(cls, AbstractModule), issubclass(cls, AbstractVector),
            issubclass(cls, AbstractPart),
            [name for name in ("structure", "is_valid", "overhang_start", "overhang_end", "target_sequence",
                               "placeholder_sequence", "assemble", "characterize", "signature")
             if hasattr(cls, name)],
        ))
        observe("cls.%s.new" % cls.__name__, lambda: type(cls(rec)).__name__)
        observe("cls.%s.struct" % cls.__name__, cls.structure)
        observe("cls.%s.valid" % cls.__name__, lambda: cls(rec).is_valid())
    # an entity keeps answering the same thing when asked again
    cutter = BsaI
    bad = circular(module_seq(cutter, "ATGC", "GGTA", "ACGT" + cutter.site + "ACGT", pad=5), "bad2")
    good = circular(module_seq(cutter, "ATGC", "GGTA", "ACGTACGT", pad=5), "good2")
    for name, r in (("bad", bad), ("good", good), ("none", rec)):
        for k in (0, 9, len(r) - 2):
            def again(r=r, k=k):
                e = SigPart(r >> k)
                out = []
                for _ in range(3):
                    out.append(e.is_valid())
                    try:
                        out.append(str(e.overhang_start()))
                    except Exception as exc:  # noqa
                        out.append("EXC {} {}".format(type(exc).__name__, exc))
                return out
            observe("cls.again.%s.%d" % (name, k), again)
    # cutter swapped on a subclass / on the instance
    class Swapped(SigPart):
        cutter = BpiI
    observe("cls.swapped", lambda: (Swapped.structure(), Swapped(good).is_valid()))
    def instance_cutter():
        e = make_classes(BsaI, "IC")[0](good)
        e.cutter = BpiI
        return e.is_valid(), ser(e.target_sequence())
    observe("cls.instance-cutter", instance_cutter)
    # optional groups
    for text in ("AAAACCAGTGGTTTTACGTACGT", "GCGCCCAGTGGTTTTACGTACGT", "AAAACCAGTGGACGTACGTAC", "GTACCCAGTGGACGTACGTAC"):
        for k in range(0, len(text), 2):
            all_views("cls.opt.mod.%s.%d" % (text[:6], k), OptModule, CircularRecord(Seq(text), id="opt") >> k)
    for text in ("AAAAGGAGTCCTTTTACGTACGT", "ACGAGGAGTCCACGTACGTAC"):
        for k in range(0, len(text), 2):
            all_views("cls.opt.vec.%s.%d" % (text[:6], k), OptVector, CircularRecord(Seq(text), id="opt") >> k)


def main():
    scenario_regex()
    scenario_rotation()
    scenario_typing()
    scenario_assembly()
    scenario_kits()
    scenario_classes()
    digest = hashlib.sha256("\n".join(LOG).encode("utf-8")).hexdigest()
    kinds = {}
    for line in LOG:
        key = line.split(" -> ")[1][:3] if " -> " in line else "chk"
        kinds[key] = kinds.get(key, 0) + 1
    if "--dump" in sys.argv:
        print("\n".join(LOG))
    print("observations: {} {}".format(len(LOG), sorted(kinds.items())))
    print("DIGEST {}".format(digest))


if __name__ == "__main__":
    main()
