"""Differential test for C16: prints a digest of everything observable through
the existing API of moclo.regex / moclo.record / structured records."""
import hashlib
import random
import sys
import warnings

sys.path.insert(0, "/tmp/agents7/C16")
warnings.simplefilter("ignore")
import tests  # noqa: F401,E402

warnings.simplefilter("always")

from Bio.Seq import Seq, MutableSeq  # noqa: E402
from Bio.SeqFeature import SeqFeature, FeatureLocation  # noqa: E402
from Bio.SeqRecord import SeqRecord  # noqa: E402
from moclo.record import CircularRecord  # noqa: E402
from moclo.regex import DNARegex, SeqMatch  # noqa: E402
from moclo.kits import ytk  # noqa: E402

rnd = random.Random(1601)
serial = iter(range(10 ** 6))
lines = []
counts = {}


def emit(section, *items):
    counts[section] = counts.get(section, 0) + 1
    lines.append(section + " | " + " | ".join(str(i) for i in items))


def text_of(x):
    if isinstance(x, SeqRecord):
        return "%s<%s id=%s feats=%s ann=%s>" % (
            type(x).__name__,
            str(x.seq),
            x.id,
            [(f.type, str(f.location), sorted(f.qualifiers.items())) for f in x.features],
            sorted(x.annotations.items()),
        )
    return "%s<%s>" % (type(x).__name__, str(x))


def guarded(func):
    with warnings.catch_warnings(record=True) as caught:
        warnings.simplefilter("always")
        try:
            res = ("ok", func())
        except Exception as e:  # noqa
            res = ("exc", type(e).__name__, str(e), sorted(k for k in vars(e) if k != "sequence"))
    return res, [(w.category.__name__, str(w.message)) for w in caught]


def randseq(n, alphabet="ACGT"):
    return "".join(rnd.choice(alphabet) for _ in range(n))


def recase(s):
    mode = rnd.randrange(4)
    if mode == 0:
        return s.lower()
    if mode == 1:
        return "".join(rnd.choice((c.lower(), c.upper())) for c in s)
    return s


# ---------------------------------------------------------------- A. search
PATTERNS = [
    "NN", "AA(NN)", "(N*)", "A(N*)", "(N*?)T", "G(R)(Y*)A", "(W)(N*?)(S)", "T(N*)(A)",
    "GGTCTCN(NNNN)(N*)(NNNN)NGAGACC", "(B)(D)(H)(V)", "K(M*)K", "(A)?C(G)", "aa(nn)", "AC|GT",
    "CGTCTCN(NNNN)(N*?)(NNNN)NGAGACG", "(N*)(N*)",
]
regexes = {p: DNARegex(p) for p in PATTERNS}
for p, r in sorted(regexes.items()):
    emit("transcribe", p, r.pattern, r.regex.pattern, r.regex.flags)


def make_target(text):
    k = rnd.randrange(9)
    if k == 0:
        return Seq(text)
    if k == 1:
        return SeqRecord(Seq(text), id="lin", annotations={"topology": "linear"})
    if k == 2:
        return CircularRecord(Seq(text), id="circ")
    if k == 3:
        return SeqRecord(Seq(text), id="plain")
    if k == 4:
        return MutableSeq(text)
    if k == 5:
        rec = CircularRecord(Seq(text), id="feat", annotations={"topology": "circular"})
        if len(text) > 3:
            rec.features.append(SeqFeature(FeatureLocation(1, len(text) - 1, 1), type="misc", qualifiers={"label": ["x"]}))
        rec.letter_annotations["q"] = list(range(len(text)))
        return rec
    if k == 6:
        return rnd.choice([text, text.encode(), None, list(text), 12])
    if k == 7:
        return Seq(text)
    return CircularRecord(SeqRecord(Seq(text), id="fromrec", name="n", description="d"))


for case in range(700):
    p = rnd.choice(PATTERNS)
    n = rnd.choice([0, 1, 2, 3, 5, 8, 13, 21, 34])
    text = randseq(n, rnd.choice(["ACGT", "ACGT", "ACGTN", "AC", "GT"]))
    if rnd.random() < 0.4 and n >= 21:
        site = "GGTCTCA" + randseq(4) + randseq(rnd.randrange(0, 6)) + randseq(4) + "TGAGACC"
        text = (site + text)[: max(n, len(site))]
        k = rnd.randrange(len(text))
        text = text[k:] + text[:k]
    text = recase(text)
    target = make_target(text)
    before = text_of(target) if isinstance(target, (Seq, MutableSeq, SeqRecord)) else repr(target)
    args, kwargs = [], {}
    mode = rnd.randrange(6)
    if mode >= 2:
        args.append(rnd.randrange(-3, n + 4))
    if mode >= 4:
        args.append(rnd.randrange(-2, 2 * n + 4))
    if rnd.random() < 0.5:
        kwargs["linear"] = rnd.random() < 0.4
    elif mode == 5:
        args.append(rnd.random() < 0.5)

    def run():
        m = regexes[p].search(target, *args, **kwargs)
        if m is None:
            return None
        out = [type(m).__name__, m.start(), m.end(), m.span(), m.rec is target, m.shift, m.match.re is regexes[p].regex]
        for g in range(m.match.re.groups + 1):
            out.append((g, m.span(g), text_of(m.group(g))))
        out.append(text_of(m.group()))
        try:
            m.group(m.match.re.groups + 1)
        except Exception as e:  # noqa
            out.append((type(e).__name__, str(e)))
        return out

    res, warns = guarded(run)
    after = text_of(target) if isinstance(target, (Seq, MutableSeq, SeqRecord)) else repr(target)
    emit("search", case, p, before, args, sorted(kwargs.items()), res, warns, after == before)

# keyword spellings of the existing parameters
r = regexes["AA(NN)"]
ring = Seq("GCAATTTGAA")
for kw in ({"pos": 4}, {"endpos": 3}, {"pos": 2, "endpos": 9, "linear": False}, {"string": ring}):
    def run(kw=kw):
        kw = dict(kw)
        s = kw.pop("string", None)
        m = r.search(ring, **kw) if s is None else r.search(string=s)
        return None if m is None else (m.span(), str(m.group(1)))
    emit("search-kw", sorted(kw), guarded(run))

# direct construction of a match object
raw = r.regex.match("GCAATTTGAAGCAATTTGAA", 8, 18)
for m in (SeqMatch(raw, ring), SeqMatch(raw, ring, 3), SeqMatch(match=raw, rec=ring, shift=1)):
    emit("seqmatch", m.shift, m.span(), m.span(1), str(m.group(0)), str(m.group(1)), m.start(), m.end())


# ------------------------------------------------- B. structured records
def plasmid(core, n_backbone, topology, cls, shift=None, case=False):
    text = core + randseq(n_backbone, "ACT")       # no G: no stray sites
    if shift is None:
        shift = rnd.randrange(len(text))
    text = text[shift:] + text[:shift]
    if case:
        text = recase(text)
    ann = {} if topology is None else {"topology": topology}
    rec = cls(Seq(text), id="p%d" % next(serial), name="nm", description="ds", annotations=ann)
    if len(text) > 12:
        rec.features.append(SeqFeature(FeatureLocation(2, 11, 1), type="misc_feature", qualifiers={"label": ["f"]}))
    return rec


def module_core(up, insert, down, cutter="GGTCTC", rc="GAGACC"):
    return cutter + "A" + up + insert + down + "T" + rc


def vector_core(first_up, dropout, last_down):
    return last_down + "AGAGACC" + dropout + "GGTCTCT" + first_up


def describe(entity):
    out = [type(entity).__name__]
    out.append(guarded(entity.is_valid))
    for name in ("overhang_start", "overhang_end"):
        out.append((name, guarded(lambda name=name: str(getattr(entity, name)()))))
    out.append(("target", guarded(lambda: text_of(entity.target_sequence()))))
    if hasattr(entity, "placeholder_sequence"):
        out.append(("placeholder", guarded(lambda: text_of(entity.placeholder_sequence()))))
    return out


SIGS = [("TATG", "ATCC"), ("AACG", "TATG"), ("ATCC", "GCTG"), ("CCCT", "AACG"), ("TTTT", "CCCC")]
PARTCLS = [ytk.YTKPart3, ytk.YTKPart2, ytk.YTKPart4, ytk.YTKPart1, ytk.YTKEntry, ytk.YTKPart234]
for case in range(160):
    up, down = rnd.choice(SIGS)
    insert = randseq(rnd.randrange(0, 25), "ACT")
    if rnd.random() < 0.15:
        insert += "GGTCTC" + randseq(6, "ACT")           # illegal inner site
    core = module_core(up, insert, down)
    if rnd.random() < 0.1:
        core = core[:-3]                                 # broken downstream site
    topo = rnd.choice([None, None, "circular", "Circular", "linear", "LINEAR"])
    cls = SeqRecord if topo and topo.lower() == "linear" else rnd.choice([SeqRecord, CircularRecord])
    shift = rnd.choice([None, None, 0, 3, len(core) - 2, len(core) - 9])
    rec = plasmid(core, rnd.randrange(0, 30), topo, cls, shift=shift, case=rnd.random() < 0.3)
    before = text_of(rec)
    wrapper = rnd.choice(PARTCLS)
    res = describe(wrapper(rec))
    emit("module", case, wrapper.__name__, before, res, text_of(rec) == before)
    emit("characterize", case, guarded(lambda: type(ytk.YTKPart.characterize(rec)).__name__))

for case in range(60):
    a, b = rnd.choice(SIGS)
    core = vector_core(a, randseq(rnd.randrange(0, 20), "ACT"), b)
    topo = rnd.choice([None, "circular", "linear"])
    cls = SeqRecord if topo == "linear" else rnd.choice([SeqRecord, CircularRecord])
    rec = plasmid(core, rnd.randrange(0, 30), topo, cls, case=rnd.random() < 0.3)
    before = text_of(rec)
    wrapper = rnd.choice([ytk.YTKCassetteVector, ytk.YTKPart8, ytk.YTKPart678])
    emit("vector", case, wrapper.__name__, before, describe(wrapper(rec)), text_of(rec) == before)

# assemblies (succeeding and failing), with citations on some inputs
chain = ["CCCT", "AACG", "TATG", "ATCC", "GCTG"]
for case in range(40):
    k = rnd.randrange(1, 5)
    vec = plasmid(vector_core(chain[k], randseq(8, "ACT"), chain[0]), 20, rnd.choice([None, "circular"]), CircularRecord)
    if rnd.random() < 0.4:
        vec.annotations["references"] = ["vec-ref"]
    mods = []
    for j in range(k):
        rec = plasmid(module_core(chain[j], randseq(rnd.randrange(3, 12), "ACT"), chain[j + 1]), 15, None,
                      SeqRecord if rnd.random() < 0.12 else CircularRecord)
        mods.append(rec)
    fate = rnd.randrange(5)
    if fate == 0 and mods:
        mods.pop(rnd.randrange(len(mods)))
    elif fate == 1:
        mods.append(plasmid(module_core(chain[0], "ACTACT", chain[1]), 15, None, SeqRecord))
    elif fate == 2:
        mods.append(plasmid(module_core("TTTT", "ACTACT", "CCCC"), 15, None, SeqRecord))
    befores = [text_of(x) for x in [vec] + mods]

    def run():
        vector = ytk.YTKCassetteVector(vec)
        out = vector.assemble(*[ytk.YTKEntry(m) for m in mods])
        return text_of(out)

    res = guarded(run)
    afters = [text_of(x) for x in [vec] + mods]
    emit("assemble", case, k, fate, res, [i for i, (x, y) in enumerate(zip(befores, afters)) if x != y], afters)

# -------------------------------------------------- C. CircularRecord itself
for case in range(60):
    n = rnd.randrange(1, 25)
    rec = CircularRecord(Seq(randseq(n)), id="c%d" % case, name="n", description="d",
                         annotations=rnd.choice([None, {"topology": "circular"}, {"topology": "CIRCULAR", "x": 1}]))
    if n > 4:
        rec.features.append(SeqFeature(FeatureLocation(1, n - 1, -1), type="CDS", qualifiers={"g": ["h"]}))
        rec.features.append(SeqFeature(FeatureLocation(0, n, 1), type="source"))
    rec.letter_annotations["phred"] = [rnd.randrange(40) for _ in range(n)]
    k = rnd.randrange(-30, 30)
    emit("rshift", case, k, guarded(lambda: text_of(rec >> k)), guarded(lambda: (rec >> k).letter_annotations))
    emit("lshift", case, k, guarded(lambda: text_of(rec << k)))
    emit("slice", case, guarded(lambda: text_of(rec[1:n - 1])), guarded(lambda: rec[0]))
    emit("revcomp", case, guarded(lambda: text_of(rec.reverse_complement(id=True, annotations=True))))
    probe = randseq(rnd.randrange(1, 4))
    emit("contains", case, probe, guarded(lambda: probe in rec), guarded(lambda: (str(rec.seq) * 3) in rec))
    emit("add", case, guarded(lambda: rec + rec), guarded(lambda: "A" + rec), guarded(lambda: rec + "A"))
emit("ctor", guarded(lambda: CircularRecord(Seq("ACGT"), annotations={"topology": "linear"})))
emit("ctor", guarded(lambda: text_of(CircularRecord(SeqRecord(Seq("ACGT"), id="z", annotations={"topology": "circular"})))))
emit("ctor", guarded(lambda: CircularRecord(SeqRecord(Seq("ACGT"), id="z", annotations={"topology": "linear"}))))

blob = "\n".join(lines).encode()
for section in sorted(counts):
    print("%-14s %4d  %s" % (section, counts[section], hashlib.sha256(
        "\n".join(l for l in lines if l.startswith(section + " |")).encode()).hexdigest()[:16]))
print("TOTAL", len(lines), hashlib.sha256(blob).hexdigest())
if "-v" in sys.argv:
    sys.stdout.write("\n".join(lines) + "\n")
