# coding: utf-8
"""Differential test: prints a digest that must be identical on the pristine
tree and on the refactored tree.  Run as

    cd /tmp/agentsR/R7 && /venv/bin/python refactor_out/<dir>/equiv.py
"""
import sys
import warnings

warnings.filterwarnings("ignore", category=UserWarning)
warnings.filterwarnings("ignore", category=DeprecationWarning)

sys.path.insert(0, "/tmp/agentsR/R7")
import tests  # noqa: E402,F401  (splices the kit packages into the moclo namespace)

import hashlib  # noqa: E402
import random  # noqa: E402

from Bio.Seq import Seq  # noqa: E402
from Bio.SeqFeature import SeqFeature, FeatureLocation, CompoundLocation  # noqa: E402
from Bio.SeqRecord import SeqRecord  # noqa: E402
from Bio import Restriction  # noqa: E402
from Bio.Restriction import BsaI, BpiI, BsmBI, BseRI, BtsI, SapI, EcoRV  # noqa: E402

from moclo import errors  # noqa: E402
from moclo.record import CircularRecord  # noqa: E402
from moclo.core.vectors import AbstractVector  # noqa: E402
from moclo.core.modules import AbstractModule  # noqa: E402
from moclo.core.parts import AbstractPart  # noqa: E402

RESULTS = []

IUPAC = {
    "A": "A", "C": "C", "G": "G", "T": "T",
    "B": "CGT", "D": "AGT", "H": "ACT", "K": "GT", "M": "AC", "N": "ACGT",
    "R": "AG", "S": "CG", "V": "ACG", "W": "AT", "Y": "CT",
}


# --- canonical description of results ---------------------------------------


def canon_location(loc):
    if loc is None:
        return None
    return repr(loc)


def canon_feature(feat):
    quals = sorted((str(k), repr(v)) for k, v in feat.qualifiers.items())
    return (feat.type, canon_location(feat.location), feat.id, quals)


def canon(obj, depth=0):
    """Return a deterministic, address-free description of `obj`."""
    if depth > 6:
        return "<deep>"
    if isinstance(obj, BaseException):
        extra = []
        for attr in ("details", "start_overhang"):
            if hasattr(obj, attr):
                extra.append((attr, canon(getattr(obj, attr), depth + 1)))
        for attr in ("duplicates", "remaining"):
            if hasattr(obj, attr):
                extra.append((attr, [canon(x, depth + 1) for x in getattr(obj, attr)]))
        try:
            msg = str(obj)
        except Exception as exc:  # the message itself can fail to render
            msg = ("<str failed>", type(exc).__name__, str(exc))
        return ("EXC", type(obj).__name__, msg, extra)
    if isinstance(obj, SeqRecord):
        return (
            "REC",
            type(obj).__name__,
            str(obj.seq),
            obj.id,
            obj.name,
            obj.description,
            sorted((str(k), repr(v)) for k, v in obj.annotations.items()),
            [canon_feature(f) for f in obj.features],
            list(obj.dbxrefs),
        )
    if isinstance(obj, Seq):
        return ("SEQ", str(obj))
    if isinstance(obj, (AbstractVector, AbstractModule, AbstractPart)):
        return ("ENT", type(obj).__name__, canon(obj.record, depth + 1))
    if isinstance(obj, (list, tuple)):
        return [canon(x, depth + 1) for x in obj]
    if isinstance(obj, dict):
        return sorted((repr(k), canon(v, depth + 1)) for k, v in obj.items())
    if isinstance(obj, type):
        return ("CLS", obj.__module__, obj.__name__)
    if obj is None or isinstance(obj, (bool, int, float, str, bytes)):
        return obj
    return ("OBJ", type(obj).__name__)


def attempt(label, func, *args, **kwargs):
    """Call `func`, recording either its result or the raised exception."""
    with warnings.catch_warnings(record=True) as caught:
        warnings.simplefilter("always")
        try:
            out = ("OK", canon(func(*args, **kwargs)))
        except Exception as exc:
            out = ("RAISED", canon(exc))
    warned = [
        (w.category.__name__, canon(w.message))
        for w in caught
        if isinstance(w.message, errors.MocloError)
    ]
    RESULTS.append((label, out, warned))
    return out


def finish():
    import re

    text = re.sub(r" at 0x[0-9a-fA-F]+", " at 0x?", repr(RESULTS))
    blob = text.encode("utf-8")
    print(len(RESULTS), "observations")
    print(hashlib.sha256(blob).hexdigest())


# --- generators ---------------------------------------------------------------


def rand_dna(rng, n, alphabet="ACGT"):
    return "".join(rng.choice(alphabet) for _ in range(n))


def instantiate(pattern, rng, filler=None, overhangs=None):
    """Generate a sequence matching a moclo structure pattern.

    ``N*`` is replaced by `filler` (random when `None`), the capture groups
    are dropped, IUPAC letters are drawn at random.  When `overhangs` is given
    it is a list of strings substituted, in order, for the capture groups that
    are made of 'N' only and have the same length.
    """
    overhangs = list(overhangs or [])
    out = []
    i = 0
    while i < len(pattern):
        c = pattern[i]
        if c == "(" and overhangs:
            j = pattern.find(")", i)
            inner = pattern[i + 1 : j] if j > 0 else ""
            if inner and set(inner) == {"N"} and len(inner) == len(overhangs[0]):
                out.append(overhangs.pop(0))
                i = j + 1
                continue
        if c in "()":
            i += 1
            continue
        if c == "N" and i + 1 < len(pattern) and pattern[i + 1] == "*":
            out.append(rand_dna(rng, rng.randint(0, 40)) if filler is None else filler)
            i += 2
            continue
        out.append(rng.choice(IUPAC.get(c, c)))
        i += 1
    return "".join(out)


def recase(rng, s):
    mode = rng.randint(0, 3)
    if mode == 0:
        return s
    if mode == 1:
        return s.lower()
    if mode == 2:
        return "".join(rng.choice((c.lower(), c.upper())) for c in s)
    return s[: len(s) // 2].lower() + s[len(s) // 2 :]


REFS = ["Lee et al. 2015", "Weber et al. 2011", "Iverson et al. 2016", "Moore 2016"]


def random_features(rng, n, with_citations=True):
    feats = []
    for k in range(rng.randint(0, 4)):
        if n < 2:
            break
        a = rng.randrange(0, n - 1)
        b = rng.randrange(a + 1, n + 1)
        quals = {"label": ["feat{}".format(k)]}
        if with_citations and rng.random() < 0.5:
            quals["citation"] = ["[{}]".format(rng.randint(1, 2))]
        if rng.random() < 0.2 and b < n - 1:
            c = rng.randrange(b, n - 1)
            d = rng.randrange(c + 1, n + 1)
            loc = CompoundLocation(
                [FeatureLocation(a, b, strand=1), FeatureLocation(c, d, strand=1)]
            )
        else:
            loc = FeatureLocation(a, b, strand=rng.choice((1, -1, None)))
        feats.append(SeqFeature(loc, type=rng.choice(("CDS", "misc_feature", "promoter")), qualifiers=quals))
    return feats


def make_record(rng, core, ident, rotate=True, kind=None, backbone=None, case=True):
    """Wrap `core` in a random backbone, rotate it and build a record."""
    if backbone is None:
        backbone = rand_dna(rng, rng.randint(0, 50))
    full = core + backbone
    if rotate and full:
        # rotation amounts may be negative or larger than the length
        k = rng.randint(-2 * len(full), 2 * len(full))
        k %= len(full)
        full = full[k:] + full[:k]
    if case:
        full = recase(rng, full)
    kind = kind or rng.choice(("circ",) * 20 + ("circ-ann",) * 6 + ("Circ-ann",) * 6 + ("linear", "plain-circ", "plain"))
    annotations = {"molecule_type": "DNA", "references": list(REFS[:2])}
    feats = random_features(rng, len(full))
    if kind == "circ":
        return CircularRecord(Seq(full), id=ident, name=ident, features=feats, annotations=annotations)
    if kind == "circ-ann":
        annotations["topology"] = "circular"
        return CircularRecord(Seq(full), id=ident, name=ident, features=feats, annotations=annotations)
    if kind == "Circ-ann":
        annotations["topology"] = "CIRCULAR"
        return CircularRecord(Seq(full), id=ident, name=ident, features=feats, annotations=annotations)
    if kind == "linear":
        annotations["topology"] = "linear"
        return SeqRecord(Seq(full), id=ident, name=ident, features=feats, annotations=annotations)
    if kind == "plain-circ":
        annotations["topology"] = "circular"
        return SeqRecord(Seq(full), id=ident, name=ident, features=feats, annotations=annotations)
    return SeqRecord(Seq(full), id=ident, name=ident, features=feats, annotations=annotations)


def usable_enzymes():
    """All the commercially known enzymes of Biopython, sorted by name."""
    return sorted(Restriction.AllEnzymes, key=str)


# =============================================================================

def all_subclasses(base):
    seen, todo = [], [base]
    while todo:
        cls = todo.pop()
        for sub in cls.__subclasses__():
            if sub not in seen:
                seen.append(sub)
                todo.append(sub)
    return sorted(seen, key=lambda c: (c.__module__, c.__name__))


def load_kits():
    import importlib

    for kit in ("cidar", "ecoflex", "moclo", "plant", "ytk"):
        try:
            importlib.import_module("moclo.kits.{}".format(kit))
        except ImportError:
            pass


def structure_of(cls):
    try:
        return cls.structure()
    except Exception:
        return None

# Refactoring R7_2: AbstractVector.placeholder_sequence / target_sequence / _match.

load_kits()
rng = random.Random(7002)


def mock_vector(enzyme):
    return type("Mock{}Vector".format(enzyme), (AbstractVector,), {"cutter": enzyme})


def part_vector(enzyme, signature):
    name = "Part{}Vector{}".format(enzyme, "".join(signature))
    return type(name, (AbstractPart, AbstractVector), {"cutter": enzyme, "signature": signature})


def sig_for(enzyme, rng):
    n = len(enzyme.ovhgseq)
    while True:
        a, b = rand_dna(rng, n), rand_dna(rng, n)
        if a != b:
            return (a, b)


CLASSES = [mock_vector(e) for e in (BsaI, BpiI, BsmBI, SapI, BseRI, BtsI)]
for enz in (BsaI, BpiI, BsmBI, SapI, BseRI, BtsI, Restriction.BsrDI, Restriction.BbvI, Restriction.FokI):
    for _ in range(3):
        CLASSES.append(part_vector(enz, sig_for(enz, rng)))
KIT_VECTORS = [
    c for c in all_subclasses(AbstractVector)
    if c.__module__.startswith("moclo.kits") and c.cutter is not NotImplemented and structure_of(c)
]
CLASSES.extend(KIT_VECTORS)
RESULTS.append(("classes", [c.__name__ for c in CLASSES]))

ORDERS = [
    ("overhang_start", "overhang_end", "placeholder_sequence", "target_sequence"),
    ("target_sequence", "placeholder_sequence", "overhang_end", "overhang_start"),
    ("placeholder_sequence", "target_sequence", "target_sequence", "is_valid"),
    ("is_valid", "target_sequence", "placeholder_sequence", "placeholder_sequence"),
]


def exercise(label, cls, record):
    def build():
        return cls(record)

    out = attempt((label, "new"), build)
    if out[0] != "OK":
        return
    for order in ORDERS:
        entity = cls(record)
        for method in order:
            attempt((label, method), getattr(entity, method))
        attempt((label, "record-after"), lambda: entity.record)
        # the private helpers of the vector, through the public cached match
        attempt((label, "match-span"), lambda: [entity._match.span(i) for i in range(4)])


count = 0
for cls in CLASSES:
    pattern = structure_of(cls)
    attempt(("structure", cls.__name__), cls.structure)
    if pattern is None:
        continue
    site = cls.cutter.site
    for j in range(14):
        count += 1
        label = (cls.__name__, j)
        mode = j % 7
        if mode in (0, 1, 2):
            core = instantiate(pattern, rng, filler=rand_dna(rng, rng.randint(0, 40), "ACT"))
            rec = make_record(rng, core, "v{}".format(count), backbone=rand_dna(rng, rng.randint(0, 40), "ACT"))
        elif mode == 3:
            # an extra recognition site within the placeholder: illegal
            filler = rand_dna(rng, 5, "ACT") + rng.choice((site, str(Seq(site).reverse_complement()))) + rand_dna(rng, 12, "ACT")
            core = instantiate(pattern, rng, filler=filler)
            rec = make_record(rng, core, "v{}".format(count), backbone=rand_dna(rng, rng.randint(0, 40), "ACT"))
        elif mode == 4:
            # an extra recognition site within the backbone: accepted
            core = instantiate(pattern, rng, filler=rand_dna(rng, rng.randint(0, 20), "ACT"))
            backbone = rand_dna(rng, 9, "ACT") + site + rand_dna(rng, 9, "ACT")
            rec = make_record(rng, core, "v{}".format(count), backbone=backbone)
        elif mode == 5:
            # no backbone at all, match starting anywhere, circular
            core = instantiate(pattern, rng, filler=rand_dna(rng, rng.randint(0, 10), "ACT"))
            rec = make_record(rng, core, "v{}".format(count), backbone="", kind="circ")
        else:
            # garbage
            rec = make_record(rng, rand_dna(rng, rng.randint(0, 80)), "v{}".format(count))
        exercise(label, cls, rec)

# hand-written corner cases
MockV = CLASSES[1]  # BpiI
for ident, seq, kind in [
    ("wrap0", "CCATGCTTGTCTTCCACAGAAGACTTCGTAGG", "circ"),
    ("same-overhangs", "CCATGCTTGTCTTCCACAGAAGACTTATGCGG", "circ"),
    ("lower", "ccatgcttgtcttccacagaagacttcgtagg", "circ"),
    ("linear-ok", "CCATGCTTGTCTTCCACAGAAGACTTCGTAGG", "linear"),
    ("linear-wrapped", "TTCCACAGAAGACTTCGTAGGCCATGCTTGTC", "linear"),
    ("circular-wrapped", "TTCCACAGAAGACTTCGTAGGCCATGCTTGTC", "circ"),
    ("empty", "", "circ"),
    ("tiny", "A", "circ"),
    ("illegal", "CCATGCTTGTCTTCCAGAAGACCAGAAGACTTCGTAGG", "circ"),
    ("twice", "CCATGCTTGTCTTCCACAGAAGACTTCGTAGG" * 2, "circ"),
]:
    rec = make_record(rng, seq, ident, rotate=False, kind=kind, backbone="", case=False)
    exercise(("hand", ident), MockV, rec)
    for k in (-70, -33, -32, -5, -1, 0, 1, 7, 31, 32, 33, 64, 100):
        if kind == "circ" and seq:
            exercise(("hand", ident, k), MockV, rec >> k)
            exercise(("hand<<", ident, k), MockV, rec << k)

finish()
