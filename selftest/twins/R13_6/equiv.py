# coding: utf-8
# --- common differential-test harness (inlined in every equiv.py) ------------
import sys

sys.path.insert(0, "/tmp/agentsR3/R13")
import tests  # noqa: F401,E402  (splices the kit packages into the moclo namespace)

import atexit  # noqa: E402
import hashlib  # noqa: E402
import io  # noqa: E402
import os  # noqa: E402
import random  # noqa: E402
import shutil  # noqa: E402
import tarfile  # noqa: E402
import tempfile  # noqa: E402
import warnings  # noqa: E402

import Bio.SeqIO  # noqa: E402
import fs  # noqa: E402
from Bio.Seq import Seq  # noqa: E402
from Bio.SeqFeature import SeqFeature, FeatureLocation  # noqa: E402
from Bio.SeqRecord import SeqRecord  # noqa: E402

from tests._utils import build_registries  # noqa: E402

warnings.simplefilter("ignore")

RNG = random.Random(0x5EED13)
RESULTS = []

LABELS = [
    "KanR", "CamR", "CmR", "KnR", "AmpR", "SmR", "SpecR",  # known cassettes
    "kanr", "AMPR", "ampR", "Kanr", "specr",  # wrong letter case: not recognised
    "GFP", "ori", "AmpR promoter", "KanR-like", "",  # unrelated
]

PKG_NAME = "equivpkg_r13"
PKG_DIR = tempfile.mkdtemp(prefix="r13_equiv_")
atexit.register(shutil.rmtree, PKG_DIR, True)
os.mkdir(os.path.join(PKG_DIR, PKG_NAME))
with open(os.path.join(PKG_DIR, PKG_NAME, "__init__.py"), "w") as _f:
    _f.write("")
sys.path.insert(0, PKG_DIR)
_ARCHIVES = [0]


def log(*values):
    RESULTS.append(repr(values))


def attempt(tag, func, *args, **kwargs):
    """Run func, record either its described result or its exception."""
    try:
        out = func(*args, **kwargs)
    except BaseException as err:  # noqa: B902 (StopIteration & co. included)
        if isinstance(err, (KeyboardInterrupt, SystemExit)):
            raise
        log(tag, "EXC", type(err).__name__, str(err).replace(PKG_DIR, "<PKG>"))
        return None
    else:
        log(tag, "OK", describe(out))
        return out


def describe_record(rec):
    return (
        type(rec).__name__,
        rec.id,
        rec.name,
        rec.description,
        str(rec.seq),
        sorted((k, repr(v)) for k, v in rec.annotations.items()),
        [
            (f.type, str(f.location), sorted((k, list(v)) for k, v in f.qualifiers.items()))
            for f in rec.features
        ],
    )


def describe(obj):
    from moclo.registry.base import Item

    if isinstance(obj, Item):
        ent = obj.entity
        try:
            valid = ent.is_valid()
        except Exception as err:
            valid = (type(err).__name__, str(err))
        return (
            "Item",
            obj.id,
            obj.name,
            obj.resistance,
            type(ent).__module__,
            type(ent).__name__,
            valid,
            describe_record(ent.record),
            obj.record is ent.record,
        )
    if isinstance(obj, SeqRecord):
        return describe_record(obj)
    if isinstance(obj, (list, tuple)):
        return [describe(x) for x in obj]
    if isinstance(obj, dict):
        return [(k, describe(v)) for k, v in obj.items()]
    if isinstance(obj, type):
        return "<class {}.{}>".format(obj.__module__, obj.__name__)
    if obj is None or isinstance(obj, (str, bytes, int, float, bool)):
        return repr(obj)
    return "<{} object>".format(type(obj).__name__)  # no memory addresses in the digest


def rand_seq(n):
    return "".join(RNG.choice("ACGT") for _ in range(n))


def make_record(
    id_,
    name=None,
    description="synthetic",
    labels=(),
    comment=None,
    seq=None,
    upper=True,
):
    """Build a small annotated circular record.

    ``labels`` is a list of label lists: one feature per inner list.
    """
    seq = seq if seq is not None else rand_seq(RNG.randint(40, 120))
    if not upper:
        seq = "".join(RNG.choice((c, c.lower())) for c in seq)
    rec = SeqRecord(Seq(seq), id=id_, name=name or id_[:16], description=description)
    rec.annotations["molecule_type"] = "DNA"
    rec.annotations["topology"] = "circular"
    if comment is not None:
        rec.annotations["comment"] = comment
    for i, lbls in enumerate(labels):
        start = RNG.randint(0, len(seq) - 10)
        end = RNG.randint(start + 1, len(seq))
        quals = {"note": ["feature {}".format(i)]}
        if lbls:
            quals["label"] = list(lbls)
        rec.features.append(
            SeqFeature(
                FeatureLocation(start, end, RNG.choice((1, -1))),
                type=RNG.choice(("CDS", "misc_feature", "promoter")),
                qualifiers=quals,
            )
        )
    return rec


def rand_labels(kind=None):
    """Label lists for the features of a record.

    kind: "one" (exactly one cassette overall), "none", "multi" (one feature
    holding two cassettes), "two" (two features with one cassette each) or
    None (anything).
    """
    known = LABELS[:7]
    other = LABELS[7:]
    kind = kind or RNG.choice(("one", "one", "one", "none", "multi", "two", "any"))
    feats = [[RNG.choice(other)] if RNG.random() < 0.7 else [] for _ in range(RNG.randint(0, 2))]
    if kind == "one":
        feats.insert(RNG.randint(0, len(feats)), [RNG.choice(known)] + RNG.sample(other, RNG.randint(0, 2)))
    elif kind == "multi":
        feats.insert(RNG.randint(0, len(feats)), RNG.sample(known, 2) + RNG.sample(other, RNG.randint(0, 1)))
        if RNG.random() < 0.5:
            feats.append([RNG.choice(known)])
    elif kind == "two":
        feats.insert(RNG.randint(0, len(feats)), [RNG.choice(known)])
        feats.append([RNG.choice(known)] if RNG.random() < 0.5 else RNG.sample(known, 2))
    elif kind == "any":
        feats = [RNG.sample(LABELS, RNG.randint(0, 3)) for _ in range(RNG.randint(0, 4))]
    return feats


def to_genbank(rec):
    buff = io.StringIO()
    Bio.SeqIO.write([rec], buff, "genbank")
    return buff.getvalue()


def make_archive(records, names=None):
    """Write the records to a new tar.gz of the scratch package; return its name."""
    _ARCHIVES[0] += 1
    fname = "archive{:04d}.tar.gz".format(_ARCHIVES[0])
    with tarfile.open(os.path.join(PKG_DIR, PKG_NAME, fname), "w:gz") as tar:
        for i, rec in enumerate(records):
            data = (rec if isinstance(rec, str) else to_genbank(rec)).encode("utf-8")
            info = tarfile.TarInfo(names[i] if names else getattr(rec, "id", "entry{}".format(i)))
            info.size = len(data)
            tar.addfile(info, io.BytesIO(data))
    return fname


def subregistry(base, records, names=None, **attrs):
    """A user-defined subclass of an embedded registry over a scratch archive."""
    attrs.update(_module=PKG_NAME, _file=make_archive(records, names))
    return type(str("User" + base.__name__), (base,), attrs)


def dump_registry(tag, reg, extra_keys=("missing", "", None, 0)):
    """Exercise the whole Mapping API of a registry."""
    attempt((tag, "len"), len, reg)
    keys = attempt((tag, "iter"), lambda: list(reg)) or []
    attempt((tag, "keys"), lambda: list(reg.keys()))
    for key in list(keys) + list(extra_keys):
        attempt((tag, "getitem", key), reg.__getitem__, key)
        attempt((tag, "contains", key), reg.__contains__, key)
        attempt((tag, "get", key), reg.get, key)
    attempt((tag, "values"), lambda: list(reg.values()))
    attempt((tag, "items"), lambda: list(reg.items()))
    attempt((tag, "hash"), lambda: hash(reg) == hash(type(reg)()))
    attempt((tag, "eq"), lambda: (reg == type(reg)(), reg != type(reg)(), reg == 1))


def finish():
    digest = hashlib.sha256("\n".join(RESULTS).encode("utf-8")).hexdigest()
    print("{} results, digest {}".format(len(RESULTS), digest))
    if os.environ.get("EQUIV_DUMP"):  # debugging aid: keep the raw results
        with open(os.environ["EQUIV_DUMP"], "w") as out:
            out.write("\n".join(RESULTS))


# --- end of the common harness -----------------------------------------------
# --- R13_6: YTKRegistry._load_entity delivered by a private mixin -------------
import copy
import inspect
import pickle

from moclo.kits import ytk, cidar
from moclo.record import CircularRecord
from moclo.registry.base import EmbeddedRegistry, AbstractRegistry, CombinedRegistry, Item
from moclo.registry.ytk import YTKRegistry, PTKRegistry
from moclo.registry.cidar import CIDARRegistry
import moclo.registry.ytk as ytk_module

build_registries("ytk")
build_registries("cidar")

# A. the real registries and the public face of the classes
REAL = {}
for cls in (YTKRegistry, PTKRegistry):
    reg = cls()
    REAL[cls] = list(reg.values())
    dump_registry(cls.__name__, reg)
    log(cls.__name__, "class",
        [c.__name__ for c in cls.__mro__ if not c.__name__.startswith("_")],
        sorted(n for n in dir(cls) if not n.startswith("_")),
        cls._module, cls._file, sorted(cls._types), sorted(v.__name__ for v in cls._types.values()),
        cls.__module__, cls.__name__, inspect.isabstract(cls), sorted(cls.__abstractmethods__),
        str(inspect.signature(cls._load_entity)), callable(cls._load_entity))
    log(cls.__name__, "instances", isinstance(reg, YTKRegistry), isinstance(reg, PTKRegistry),
        isinstance(reg, EmbeddedRegistry), isinstance(reg, AbstractRegistry),
        reg == YTKRegistry(), reg == PTKRegistry(), hash(reg) == hash(YTKRegistry()), len({reg, YTKRegistry(), PTKRegistry()}))
    attempt((cls.__name__, "pickle"), lambda: type(pickle.loads(pickle.dumps(cls()))).__name__)
    attempt((cls.__name__, "copy"), lambda: sorted(copy.copy(reg).keys()) == sorted(reg.keys()))
log("module", sorted(n for n in dir(ytk_module) if not n.startswith("_")))
log("subclass", issubclass(PTKRegistry, YTKRegistry), issubclass(YTKRegistry, EmbeddedRegistry), PTKRegistry._types is YTKRegistry._types)
attempt("combined", lambda: sorted((CombinedRegistry() << YTKRegistry() << PTKRegistry()).keys()))
attempt("abstract", EmbeddedRegistry)
real_items = REAL[YTKRegistry] + REAL[PTKRegistry]

# B. user subclasses over scratch archives with all sorts of comments
TYPES = sorted(YTKRegistry._types)
HINTS = (["YTK:" + t for t in TYPES] * 3) + [
    "YTK:3a ", "YTK:4b\t", "YTK: 1", " YTK:1", "ytk:1", "YTK:3A", "YTK:", "YTK:1:2", "YTK::1", "YTK:9",
    "YTK:Cassette Vector", "YTK:cassette vector ", "YTK:entry  vector", "YTK", "YTK 1", "PTK:1", "XYTK:1",
    "YTK:1 YTK:2", "YTK:234r",
]
NOISE = ["a plain line", "YT", "K:1", "ytk:2", "  ", "See YTK:1 above", "colon: inside", "ünïcode line", "PTK:3"]


def clone(rec):
    rec = copy.deepcopy(rec)
    return SeqRecord(rec.seq, id=rec.id, name=rec.name, description=rec.description,
                     annotations=rec.annotations, features=rec.features)


def ytk_record(k):
    if RNG.random() < 0.75:
        rec = clone(RNG.choice(real_items).entity.record)
    else:
        rec = make_record("SYN{}".format(k), labels=rand_labels("one"), upper=RNG.random() < 0.7)
    if RNG.random() < 0.25:
        rec.id = RNG.choice(("dup", "pYTK001", rec.id.lower()))
    lines = [RNG.choice(NOISE) for _ in range(RNG.randint(0, 3))]
    r = RNG.random()
    if r < 0.9:
        lines.insert(RNG.randint(0, len(lines)), RNG.choice(HINTS))
    if r < 0.2:
        extra = RNG.choice(HINTS)
        lines.insert(RNG.randint(0, len(lines)), extra)  # a second hint: only the first one is used and removed
        if r < 0.07:
            lines.append(lines[lines.index(extra)])  # the very same line twice
    if r > 0.95:
        rec.annotations.pop("comment", None)
    else:
        rec.annotations["comment"] = "\n".join(lines)
    return rec


def exercise_user(tag, cls):
    reg = attempt((tag, "new"), cls)
    if reg is None:
        return
    for round_ in range(2):
        dump_registry((tag, round_), reg)
        attempt((tag, round_, "comments"), lambda: [(v.id, v.record.annotations.get("comment")) for v in reg.values()])
    return reg


for n in range(260):
    records = [ytk_record(k) for k in range(RNG.choice((1, 1, 1, 2, 3)))]
    base = RNG.choice((YTKRegistry, YTKRegistry, PTKRegistry))
    log("user", n, base.__name__, [(r.id, r.annotations.get("comment")) for r in records])
    exercise_user(("user", n), subregistry(base, records))


# C. users' own class hierarchies
class Boom(Exception):
    pass


def custom(record):
    return ytk.YTKPart8b(record)


class Extended(YTKRegistry):
    _types = dict(YTKRegistry._types, **{"9": custom, "": custom, "3A": ytk.YTKPart3a})


class Shrunk(PTKRegistry):
    _types = {"1": ytk.YTKPart1}


class Wrapping(YTKRegistry):
    def _load_entity(self, record):
        before = record.annotations.get("comment")
        try:
            entity = super(Wrapping, self)._load_entity(record)
        except (StopIteration, KeyError) as err:
            self.events = getattr(self, "events", []) + [(record.id, type(err).__name__, str(err), before, record.annotations.get("comment"))]
            return ytk.YTKPart1(record)
        self.events = getattr(self, "events", []) + [(record.id, type(entity).__name__, before, record.annotations.get("comment"))]
        return entity

    def _load_name(self, record):
        return record.name.upper()


class OldStyle(PTKRegistry):
    def _load_entity(self, record):
        return YTKRegistry._load_entity(self, record)  # explicit call through the public class


class Cooperative(EmbeddedRegistry):
    def _load_entity(self, record):
        record.annotations["comment"] = "YTK:8a\n" + record.annotations.get("comment", "")
        return super(Cooperative, self)._load_entity(record)


class CoopYTK(Cooperative, YTKRegistry):  # super() of Cooperative reaches the YTK implementation
    pass


class YTKFirst(YTKRegistry, CIDARRegistry):
    pass


class CIDARFirst(CIDARRegistry, YTKRegistry):
    pass


class Plain(object):
    marker = "plain"

    def _load_name(self, record):
        return "plain " + record.name


class Mixed(Plain, PTKRegistry):
    pass


class Failing(YTKRegistry):
    _types = {"1": lambda record: (_ for _ in ()).throw(Boom(record.id))}


USER_CLASSES = [Extended, Shrunk, Wrapping, OldStyle, CoopYTK, YTKFirst, CIDARFirst, Mixed, Failing]
for cls in USER_CLASSES:
    log("user-class", cls.__name__, [c.__name__ for c in cls.__mro__ if not c.__name__.startswith("_")],
        inspect.isabstract(cls), cls._file, cls._module)
for n in range(180):
    base = USER_CLASSES[n % len(USER_CLASSES)]
    if base is CIDARFirst and n % 2:
        src = RNG.choice(list(CIDARRegistry().values())).entity.record
        records = [clone(src)]
    else:
        records = [ytk_record(k) for k in range(RNG.choice((1, 2, 3)))]
    log("hier", n, base.__name__, [(r.id, r.description, r.annotations.get("comment")) for r in records])
    reg = exercise_user(("hier", n), subregistry(base, records))
    log("hier-events", n, getattr(reg, "events", None))

# an abstract intermediate class stays abstract; instantiation errors are the same
attempt("Cooperative", Cooperative)
attempt("args", YTKRegistry, 1)
attempt("kwargs", lambda: PTKRegistry(x=1))

finish()
