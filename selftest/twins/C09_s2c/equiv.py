# coding: utf-8
"""Differential test for the code behind the provenance / GenBank property.

Prints a digest (and a few counters) of everything observable through the
existing API: structures of all kit classes, synthetic assemblies (several
enzymes, wrap-around matches, mixed case, multi-level, failures, warnings,
citations), registry records, GenBank serialisations and the state of the
inputs afterwards.  The output must be identical before / after a
behaviour-preserving change.
"""
import sys

sys.path.insert(0, "/tmp/agents8/C09")
import tests  # noqa: E402,F401

import copy  # noqa: E402
import hashlib  # noqa: E402
import inspect  # noqa: E402
import io  # noqa: E402
import random  # noqa: E402
import re  # noqa: E402
import warnings  # noqa: E402

warnings.simplefilter("ignore")

from Bio import SeqIO  # noqa: E402
from Bio.Seq import Seq  # noqa: E402
from Bio.SeqFeature import (  # noqa: E402
    SeqFeature,
    FeatureLocation,
    CompoundLocation,
    Reference,
)
from Bio.SeqRecord import SeqRecord  # noqa: E402
from Bio.Restriction import BsaI, BpiI, BbsI, BsmBI, BtsI, EcoRI, EcoRV  # noqa: E402

from moclo import errors  # noqa: E402
from moclo.record import CircularRecord  # noqa: E402
from moclo.regex import DNARegex  # noqa: E402
from moclo.core import (  # noqa: E402
    AbstractModule,
    AbstractVector,
    AbstractPart,
    Product,
    Entry,
    Cassette,
    Device,
    EntryVector,
    CassetteVector,
    DeviceVector,
)
from moclo.core._assembly import AssemblyManager  # noqa: E402
from moclo.core._utils import add_as_source, cutter_check  # noqa: E402
from moclo.core._structured import StructuredRecord  # noqa: E402
from moclo.kits import cidar, ecoflex, moclo as moclo_kit, plant, ytk  # noqa: E402

H = hashlib.sha256()
COUNT = {"lines": 0, "products": 0, "errors": 0, "warnings": 0}
VERBOSE = "-v" in sys.argv
ADDRESS = re.compile(r" at 0x[0-9a-fA-F]+")


def emit(*parts):
    line = " | ".join(str(p) for p in parts)
    line = ADDRESS.sub(" at 0x?", line)
    if VERBOSE:
        print(line)
    H.update(line.encode("utf-8", "replace"))
    H.update(b"\n")
    COUNT["lines"] += 1


# --- describing things -------------------------------------------------------


def d_loc(loc):
    if loc is None:
        return "None"
    return "{}{}".format(
        type(loc).__name__,
        [(int(p.start), int(p.end), p.strand, p.ref, p.ref_db) for p in loc.parts],
    )


def d_value(v):
    if isinstance(v, Reference):
        return "Reference<{}|{}|{}|{}>".format(
            v.title, v.authors, v.journal, [d_loc(l) for l in v.location]
        )
    if isinstance(v, (list, tuple)):
        return type(v).__name__ + "[" + ", ".join(d_value(x) for x in v) + "]"
    if isinstance(v, dict):
        return "{" + ", ".join("{}: {}".format(k, d_value(x)) for k, x in v.items()) + "}"
    return "{}:{!r}".format(type(v).__name__, v)


def d_feature(f):
    return "F({}, {}, id={!r}, {})".format(
        f.type, d_loc(f.location), f.id, d_value(dict(f.qualifiers))
    )


def d_record(r):
    if r is None:
        return "None"
    out = [
        type(r).__name__,
        "id={!r} name={!r} desc={!r}".format(r.id, r.name, r.description),
        "seq=" + str(r.seq),
        "dbx=" + d_value(list(r.dbxrefs)),
        "ann=" + d_value(dict(r.annotations)),
        "let=" + d_value(dict(r.letter_annotations)),
    ]
    out.extend(d_feature(f) for f in r.features)
    return "\n    ".join(out)


def d_genbank(r):
    buf = io.StringIO()
    try:
        SeqIO.write(r, buf, "genbank")
    except Exception as e:  # noqa
        return "GB-ERR {}: {}".format(type(e).__name__, e)
    text = buf.getvalue()
    try:
        back = SeqIO.read(io.StringIO(text), "genbank")
    except Exception as e:  # noqa
        return "GB-READ-ERR {}: {}\n{}".format(type(e).__name__, e, text)
    return "GB\n{}\n  BACK {}".format(text, d_record(back))


def d_exc(e):
    extra = []
    for attr in ("details", "start_overhang"):
        if hasattr(e, attr):
            extra.append("{}={!r}".format(attr, getattr(e, attr)))
    for attr in ("duplicates", "remaining"):
        if hasattr(e, attr):
            extra.append("{}={}".format(attr, [x.record.id for x in getattr(e, attr)]))
    if hasattr(e, "sequence"):
        s = e.sequence
        extra.append("sequence={}:{}".format(type(s).__name__, getattr(s, "id", str(s))))
    return "EXC {}: {} {} cause={!r} ctx={}".format(
        type(e).__name__,
        e,
        extra,
        e.__cause__,
        type(e.__context__).__name__ if e.__suppress_context__ is False else "suppressed",
    )


def attempt(label, func, *args, **kwargs):
    """Run func, emit result/exception and the warnings it raised."""
    with warnings.catch_warnings(record=True) as caught:
        warnings.simplefilter("always")
        try:
            res = func(*args, **kwargs)
            exc = None
        except Exception as e:  # noqa
            res, exc = None, e
    for w in caught:
        if issubclass(w.category, (DeprecationWarning, PendingDeprecationWarning)):
            continue
        COUNT["warnings"] += 1
        emit(label, "WARN", w.category.__name__, str(w.message))
    if exc is not None:
        COUNT["errors"] += 1
        emit(label, d_exc(exc))
    return res, exc


def assemble(label, vector, mods, inputs=None, **kwargs):
    res, exc = attempt(label, vector.assemble, *mods, **kwargs)
    if exc is None:
        COUNT["products"] += 1
        emit(label, "PRODUCT", d_record(res))
        emit(label, d_genbank(res))
    for ent in list(mods) + [vector]:
        emit(label, "INPUT-AFTER", d_record(ent.record))
        emit(label, "CACHED", sorted(k for k in vars(ent) if k not in ("record", "seq")))
    return res


# --- 1. classes --------------------------------------------------------------

KITS = [("cidar", cidar), ("ecoflex", ecoflex), ("moclo", moclo_kit), ("plant", plant), ("ytk", ytk)]
CORE = [
    AbstractModule, AbstractVector, AbstractPart, Product, Entry, Cassette, Device,
    EntryVector, CassetteVector, DeviceVector, StructuredRecord,
]
PUBLIC = set(CORE)


def describe_class(prefix, cls):
    try:
        structure = cls.structure()
    except Exception as e:  # noqa
        structure = "EXC {}: {}".format(type(e).__name__, e)
    try:
        pattern = cls._get_regex().regex.pattern
    except Exception as e:  # noqa
        pattern = "EXC {}: {}".format(type(e).__name__, e)
    cutter = getattr(cls, "cutter", None)
    emit(
        prefix,
        cls.__name__,
        "mro=" + ",".join(c.__name__ for c in cls.__mro__ if c in PUBLIC or c.__module__.startswith("moclo.kits")),
        "level={!r}".format(getattr(cls, "_level", "n/a")),
        "cutter={}".format(cutter if cutter in (None, NotImplemented) else cutter.__name__),
        "sig={!r}".format(getattr(cls, "signature", "n/a")),
        "abstract={}".format(inspect.isabstract(cls)),
        "structure={}".format(structure),
        "regex={}".format(pattern),
        "doc=" + hashlib.md5((cls.__doc__ or "").encode()).hexdigest()[:8],
    )
    for meth in ("overhang_start", "overhang_end", "target_sequence", "structure", "assemble", "placeholder_sequence", "is_valid"):
        m = getattr(cls, meth, None)
        if m is not None:
            emit(prefix, cls.__name__, meth, hashlib.md5((m.__doc__ or "").encode()).hexdigest()[:8])
    rec = CircularRecord(Seq("ATGCATGCATGCATGC"), id="x")
    res, exc = attempt(prefix + ":new:" + cls.__name__, cls, rec)
    if exc is None:
        attempt(prefix + ":valid:" + cls.__name__, res.is_valid)


for c in CORE:
    describe_class("core", c)
KIT_CLASSES = []
for kname, kit in KITS:
    for name in sorted(vars(kit)):
        obj = getattr(kit, name)
        if isinstance(obj, type) and issubclass(obj, StructuredRecord) and obj.__module__ == kit.__name__:
            describe_class(kname, obj)
            KIT_CLASSES.append(obj)
    emit(kname, "classes", sorted(o.__name__ for o in KIT_CLASSES if o.__module__ == kit.__name__))
for mod in ("moclo.core.modules", "moclo.core.vectors", "moclo.core.parts", "moclo.core"):
    m = sys.modules[mod]
    emit(mod, sorted(n for n, o in vars(m).items() if isinstance(o, type) and issubclass(o, StructuredRecord) and o in PUBLIC and o is not StructuredRecord))

# cutter_check / add_as_source directly
for cutter in (NotImplemented, BsaI, EcoRI, EcoRV, BtsI):
    attempt("cutter_check:{}".format(cutter), cutter_check, cutter, "Name")
for loc in (None, FeatureLocation(2, 5), FeatureLocation(0, 0), FeatureLocation(1, 3, strand=-1)):
    src = SeqRecord(Seq("ATGC"), id="src{}", name="srcname")
    dst = SeqRecord(Seq("AAAATTTT"), id="dst")
    res, exc = attempt("add_as_source", add_as_source, src, dst, loc)
    emit("add_as_source", res is dst, d_record(dst), d_record(src))
for bad_id in (None,):
    src = SeqRecord(Seq("ATGC"), id=bad_id)
    dst = SeqRecord(Seq("AAAATTTT"), id="dst")
    res, exc = attempt("add_as_source-id", add_as_source, src, dst)
    emit("add_as_source-id", d_record(dst))

# --- 2. synthetic assemblies -------------------------------------------------

SITES = ["GGTCTC", "GAGACC", "GAAGAC", "GTCTTC", "CGTCTC", "GAGACG", "GCAGTG", "CACTGC"]


def filler(rng, n):
    while True:
        s = "".join(rng.choice("ACGT") for _ in range(n))
        if not any(x in (s + s) for x in SITES):
            return s


ENZ = {
    # name: (cutter, site, gap between the site and the overhang)
    "BsaI": (BsaI, "GGTCTC", "A"),
    "BpiI": (BpiI, "GAAGAC", "TT"),
    "BbsI": (BbsI, "GAAGAC", "CA"),
    "BsmBI": (BsmBI, "CGTCTC", "G"),
}


def rc(s):
    return str(Seq(s).reverse_complement())


def make_classes(cutter_):
    class Vec(AbstractVector):
        cutter = cutter_

    class Mod(AbstractModule):
        cutter = cutter_

    Vec.__name__ = str("Vec" + cutter_.__name__)
    Mod.__name__ = str("Mod" + cutter_.__name__)
    return Vec, Mod


CLASSES = {name: make_classes(e[0]) for name, e in ENZ.items()}


def clean_join(rng, *pieces):
    """Join pieces, resampling fillers (callables) until no site is created."""
    while True:
        s = "".join(p(rng) if callable(p) else p for p in pieces)
        ok = True
        for site in SITES:
            expected = sum(p.count(site) for p in pieces if not callable(p))
            if (s + s[:5]).count(site) != expected:
                ok = False
        if ok:
            return s


def F(n):
    return lambda rng: filler(rng, n)


def module_seq(rng, enz, a, b, n, pre="", post=""):
    _, site, gap = ENZ[enz]
    return clean_join(rng, F(5 + rng.randrange(8)), pre, site, gap, a, F(n), b, rc(gap), rc(site), post, F(4 + rng.randrange(9)))


def vector_seq(rng, enz, a, b, n, pre="", post=""):
    # a: overhang_end (first module starts with it), b: overhang_start
    _, site, gap = ENZ[enz]
    return clean_join(rng, F(9 + rng.randrange(8)), pre, a, rc(gap), rc(site), F(n), site, gap, b, post, F(8 + rng.randrange(9)))


def mangle(rng, s, rotate=True, case=True):
    if rotate:
        k = rng.randrange(len(s))
        s = s[k:] + s[:k]
    if case:
        mode = rng.randrange(4)
        if mode == 1:
            s = s.lower()
        elif mode == 2:
            s = "".join(c.lower() if rng.random() < 0.5 else c for c in s)
    return s


def annotate(rng, rec, with_refs):
    n = len(rec)
    feats = []
    for i in range(rng.randrange(4)):
        a = rng.randrange(n)
        b = rng.randrange(a, n) + 1
        quals = {"label": ["f{}".format(i)]}
        feats.append(SeqFeature(FeatureLocation(a, b, strand=rng.choice([1, -1, None])), type=rng.choice(["CDS", "misc_feature", "promoter", "source"]), qualifiers=quals))
    if rng.random() < 0.4:
        feats.append(SeqFeature(FeatureLocation(0, n), type="source", qualifiers={"organism": ["x"]}))
    if rng.random() < 0.3 and n > 12:
        a = rng.randrange(2, n // 2)
        feats.append(SeqFeature(CompoundLocation([FeatureLocation(n - a, n, strand=1), FeatureLocation(0, a, strand=1)]), type="misc_feature", qualifiers={"note": ["wraps"]}))
    if with_refs:
        refs = []
        for i in range(1 + rng.randrange(2)):
            ref = Reference()
            ref.title = "Paper {} of {}".format(i, rec.id) if rng.random() < 0.7 else "Shared paper"
            ref.authors = "Doe J."
            ref.journal = "J. Irreproducible Results"
            ref.location = [FeatureLocation(0, n)]
            refs.append(ref)
        rec.annotations["references"] = refs
        for f in feats:
            if rng.random() < 0.6:
                f.qualifiers["citation"] = ["[{}]".format(1 + rng.randrange(len(refs))) for _ in range(1 + rng.randrange(2))]
    rec.features.extend(feats)
    if rng.random() < 0.5:
        rec.annotations["topology"] = "circular"
    if rng.random() < 0.5:
        rec.annotations["molecule_type"] = "DNA"
    if rng.random() < 0.2:
        rec.letter_annotations["phred_quality"] = [rng.randrange(40) for _ in range(n)]
    if rng.random() < 0.2:
        rec.dbxrefs.append("db:{}".format(rec.id))


OVERHANGS = ["ATGC", "GGCA", "CGTA", "ACTA", "GGAC", "TCCG", "AACG", "TATG", "CCCT", "GCTG"]


def make_record(rng, seq, id_, refs=False, plain=False):
    rec = CircularRecord(Seq(seq), id=id_, name=id_ + "_nm", description="desc of " + id_)
    annotate(rng, rec, refs)
    return rec


def synthetic(seed):
    rng = random.Random(seed)
    enz = rng.choice(sorted(ENZ))
    Vec, Mod = CLASSES[enz]
    k = 1 + rng.randrange(4)
    ovs = rng.sample(OVERHANGS, k + 1)
    refs = seed % 3 == 0
    mods = []
    for i in range(k):
        s = mangle(rng, module_seq(rng, enz, ovs[i], ovs[i + 1], 6 + rng.randrange(30)))
        mods.append(Mod(make_record(rng, s, "s{}m{}".format(seed, i), refs)))
    s = mangle(rng, vector_seq(rng, enz, ovs[0], ovs[k], 5 + rng.randrange(20)))
    vec = Vec(make_record(rng, s, "s{}v".format(seed), refs))
    rng.shuffle(mods)
    label = "syn{}:{}".format(seed, enz)
    kwargs = {}
    if seed % 2:
        kwargs["id"] = "ID{}".format(seed)
    if seed % 4 < 2:
        kwargs["name"] = "NAME{}".format(seed)
    if seed % 7 == 0:
        kwargs["ignored"] = 1
    scenario = seed % 11
    if scenario == 3 and k > 1:  # missing module
        mods = mods[1:]
    elif scenario == 4:  # unused module
        s = module_seq(rng, enz, "TTGA", "CAGT", 9)
        mods.append(Mod(make_record(rng, s, "s{}extra".format(seed), refs)))
    elif scenario == 5:  # duplicate start overhang
        s = module_seq(rng, enz, ovs[0], "CAGT", 9)
        mods.append(Mod(make_record(rng, s, "s{}dup".format(seed), refs)))
    elif scenario == 6:  # reverse complementing overhangs
        s = module_seq(rng, enz, rc(ovs[0]), "CAGT", 9)
        mods.append(Mod(make_record(rng, s, "s{}rc".format(seed), refs)))
    elif scenario == 7:  # illegal site in a module
        _, site, gap = ENZ[enz]
        s = clean_join(rng, F(5), site, gap, ovs[0], F(5), site, F(7), ovs[1], rc(gap), rc(site), F(6))
        mods[0] = Mod(make_record(rng, s, "s{}ill".format(seed), refs))
    elif scenario == 8:  # not a module at all
        mods.append(Mod(make_record(rng, filler(rng, 40), "s{}junk".format(seed), refs)))
    elif scenario == 9 and refs:  # invalid citation
        f = SeqFeature(FeatureLocation(0, 3), type="misc_feature", qualifiers={"citation": [rng.choice(["1", "[]", "[9]", "[x]"])]})
        mods[-1].record.features.append(f)
    elif scenario == 10:  # linear topology record as module
        r = SeqRecord(Seq(module_seq(rng, enz, ovs[0], ovs[1], 10)), id="s{}lin".format(seed), annotations={"topology": "linear"})
        mods[0] = Mod(r)
    product = assemble(label, vec, mods, **kwargs)
    # accessors, twice (idempotence / caching)
    for ent in mods + [vec]:
        for meth in ("overhang_start", "overhang_end", "target_sequence", "placeholder_sequence", "is_valid"):
            if hasattr(ent, meth):
                for rep in range(2):
                    res, exc = attempt(label + ":" + ent.record.id + "." + meth, getattr(ent, meth))
                    if exc is None:
                        emit(label, ent.record.id, meth, d_record(res) if isinstance(res, SeqRecord) else d_value(res))
        emit(label, "INPUT-AFTER2", d_record(ent.record))
    return product


for seed in range(220):
    synthetic(seed)

# --- 3. multi-level ----------------------------------------------------------


def multilevel(seed):
    rng = random.Random(1000 + seed)
    label = "multi{}".format(seed)
    inner, outer = rng.choice([("BpiI", "BsaI"), ("BsaI", "BsmBI"), ("BsmBI", "BsaI"), ("BbsI", "BsmBI")])
    Vi, Mi = CLASSES[inner]
    Vo, Mo = CLASSES[outer]
    _, osite, ogap = ENZ[outer]
    nprod = 1 + rng.randrange(3)
    outer_ovs = rng.sample(["ACTA", "GGAC", "TCCG", "CCCT", "GCTG"], nprod + 1)
    products = []
    for p in range(nprod):
        k = 1 + rng.randrange(3)
        ovs = rng.sample(["ATGC", "GGCA", "CGTA", "AACG", "TATG"], k + 1)
        mods = []
        for i in range(k):
            s = mangle(rng, module_seq(rng, inner, ovs[i], ovs[i + 1], 6 + rng.randrange(20)), case=False)
            mods.append(Mi(make_record(rng, s, "{}p{}m{}".format(label, p, i), seed % 2 == 0)))
        s = vector_seq(rng, inner, ovs[0], ovs[k], 7 + rng.randrange(9), pre=osite + ogap + outer_ovs[p] + "C", post="G" + outer_ovs[p + 1] + rc(ogap) + rc(osite))
        vec = Vi(make_record(rng, mangle(rng, s, case=False), "{}p{}v".format(label, p), seed % 2 == 0))
        prod = assemble(label + ":p{}".format(p), vec, mods, id="{}P{}".format(label, p), name="P{}".format(p))
        products.append(prod)
    s = mangle(rng, vector_seq(rng, outer, outer_ovs[0], outer_ovs[nprod], 11), case=False)
    vec = Vo(make_record(rng, s, label + "V", seed % 2 == 0))
    if any(p is None for p in products):
        emit(label, "inner failure")
        return
    final = assemble(label + ":final", vec, [Mo(p) for p in products], id=label + "Q", name="Q")
    if final is not None and seed % 3 == 0:
        # round trip through GenBank, then use again as a module of a 3rd level
        buf = io.StringIO()
        try:
            SeqIO.write(final, buf, "genbank")
            back = CircularRecord(SeqIO.read(io.StringIO(buf.getvalue()), "genbank"))
        except Exception as e:  # noqa
            emit(label, "reload failure", type(e).__name__, e)
            return
        emit(label, "reloaded", d_record(back))
        for k in (0, 1, 7, len(back) - 1, -3):
            emit(label, "rot", k, d_record(back >> k), d_record(back << k))


for seed in range(40):
    multilevel(seed)

# --- 4. 3' overhang cutter with an explicit structure ---------------------------


class Mod3(AbstractModule):
    cutter = BtsI

    @classmethod
    def structure(cls):
        return "GCAGTG(NN)(N*?)(NN)CACTGC"


class Vec3(AbstractVector):
    cutter = BtsI

    @classmethod
    def structure(cls):
        return "(NN)(CACTGCN*GCAGTG)(NN)"


for seed in range(12):
    rng = random.Random(5000 + seed)
    label = "three{}".format(seed)
    ovs = [["AC", "GA", "TC"], ["CA", "GG", "TT"], ["AG", "CC", "GT"]][seed % 3]
    k = 1 + seed % 2
    mods = [Mod3(make_record(rng, mangle(rng, clean_join(rng, F(6), "GCAGTG", ovs[i], F(9 + seed), ovs[i + 1], "CACTGC", F(7))), "{}m{}".format(label, i))) for i in range(k)]
    vec = Vec3(make_record(rng, mangle(rng, clean_join(rng, F(12), ovs[0], "CACTGC", F(8), "GCAGTG", ovs[k], F(10))), label + "v"))
    assemble(label, vec, mods, id=label, name=label)
    for ent in mods + [vec]:
        for meth in ("overhang_start", "overhang_end", "target_sequence", "placeholder_sequence"):
            if hasattr(ent, meth):
                res, exc = attempt(label + ":" + meth, getattr(ent, meth))
                if exc is None:
                    emit(label, ent.record.id, meth, d_record(res) if isinstance(res, SeqRecord) else d_value(res))

# --- 5. odd inputs -------------------------------------------------------------

rng = random.Random(77)
Vec, Mod = CLASSES["BpiI"]
seqv = "CCATGCTTGTCTTCCACAGAAGACTTCGTAGG"
seqm = "GAAGACTTATGCCACACGTATTGTCTTC"
# plain SeqRecord inputs
assemble("plain-module", Vec(CircularRecord(Seq(seqv), id="v")), [Mod(SeqRecord(Seq(seqm), id="m"))])
assemble("plain-vector", Vec(SeqRecord(Seq(seqv), id="v")), [Mod(CircularRecord(Seq(seqm), id="m"))])
assemble("plain-both", Vec(SeqRecord(Seq(seqv), id="v")), [Mod(SeqRecord(Seq(seqm), id="m"))])
# same overhangs vector
assemble("same-ovhg", Vec(CircularRecord(Seq("CCATGCTTGTCTTCCACAGAAGACTTATGCGG"), id="vector")), [Mod(CircularRecord(Seq("GAAGACTTATGCCACAATGCTTGTCTTC"), id="module"))])
# odd ids / names
for i, (id_, name) in enumerate([("a b", "n n"), ("x" * 30, "y" * 30), ("", ""), ("{0}", "{name}"), (None, None), (12, 13), ("é", "ü")]):
    assemble("odd-id{}".format(i), Vec(CircularRecord(Seq(seqv), id="v{}")), [Mod(CircularRecord(Seq(seqm), id="m{x}"))], id=id_, name=name)
assemble("none-ids", Vec(CircularRecord(Seq(seqv), id=None)), [Mod(CircularRecord(Seq(seqm), id="m"))])
assemble("none-ids2", Vec(CircularRecord(Seq(seqv), id="v")), [Mod(CircularRecord(Seq(seqm), id=None))])
# manager used directly, and twice
v, m = Vec(CircularRecord(Seq(seqv), id="v")), Mod(CircularRecord(Seq(seqm), id="m"))
for mods in ([m], (m,)):
    res, exc = attempt("manager-new", AssemblyManager, v, mods)
    if exc is None:
        emit("manager", sorted(vars(res)), res.id, res.name, len(res.elements), res.modules is mods)
        for rep in range(2):
            out, exc = attempt("manager-assemble", res.assemble)
            emit("manager", rep, d_record(out))
# abstract cutters
attempt("no-cutter", AbstractModule, CircularRecord(Seq(seqm), id="m"))
attempt("no-cutter", AbstractVector, CircularRecord(Seq(seqv), id="v"))

# CircularRecord / DNARegex pieces used on the way
rec = CircularRecord(Seq("ATGCAATTGGCCAT"), id="r", features=[
    SeqFeature(FeatureLocation(0, 14), type="source"),
    SeqFeature(FeatureLocation(0, 5), type="source", qualifiers={"plasmid": "a"}),
    SeqFeature(FeatureLocation(5, 14), type="source", qualifiers={"plasmid": "b"}),
    SeqFeature(CompoundLocation([FeatureLocation(0, 3), FeatureLocation(6, 14)]), type="source"),
    SeqFeature(FeatureLocation(3, 9, strand=-1), type="CDS"),
    SeqFeature(None, type="misc"),
])
for k in range(-15, 30):
    emit("rshift", k, d_record(rec >> k))
    emit("lshift", k, d_record(rec << k))
emit("rshift-same", (rec >> 0) is rec, (rec << 14) is rec)
attempt("rshift-empty", lambda: CircularRecord(Seq(""), id="e") >> 1)
for sl in (slice(0, 5), slice(3, None), slice(None, None), slice(2, 12, 2), slice(5, 5)):
    res, exc = attempt("getitem", rec.__getitem__, sl)
    emit("getitem", sl, d_record(res))
    rec2 = CircularRecord(rec)
    del rec2.features[-1]
    emit("getitem2", sl, d_record(rec2[sl]))
emit("getitem", rec[3], rec[-1])
emit("lettermap", sorted(DNARegex._lettermap.items()), type(DNARegex("ATNG").regex.pattern).__name__, DNARegex("ATNGB").regex.pattern)
for pat, s in [("AT(NN)G", "ccatggg"), ("GC(N*)AT", "TTGCAATT"), ("TT(NN)GG", "GGAATT")]:
    for target in (Seq(s), SeqRecord(Seq(s), id="q"), CircularRecord(Seq(s), id="q"), s):
        for linear in (True, False):
            res, exc = attempt("regex", DNARegex(pat).search, target, linear=linear)
            if res is not None:
                g = res.group(1)
                emit("regex", pat, s, type(target).__name__, linear, res.span(0), res.span(1), res.start(), res.end(), str(getattr(g, "seq", g)))
            elif exc is None:
                emit("regex", pat, s, type(target).__name__, linear, None)

# --- 6. registries ---------------------------------------------------------------

from moclo.registry.base import CombinedRegistry  # noqa: E402
from moclo.registry.ytk import YTKRegistry, PTKRegistry  # noqa: E402
from moclo.registry.cidar import CIDARRegistry  # noqa: E402
from moclo.registry.ecoflex import EcoFlexRegistry  # noqa: E402
from moclo.registry.plant import PlantRegistry  # noqa: E402

REGISTRIES = [("ytk", YTKRegistry), ("ptk", PTKRegistry), ("cidar", CIDARRegistry), ("ecoflex", EcoFlexRegistry), ("plant", PlantRegistry)]


def short(rec):
    return hashlib.md5(d_record(rec).encode("utf-8", "replace")).hexdigest()[:12]


for rname, factory in REGISTRIES:
    reg, exc = attempt("registry:" + rname, factory)
    if exc is not None:
        continue
    items = [reg[k] for k in sorted(reg)]
    emit(rname, len(items))
    by_start = {}
    vectors = []
    for item in items:
        ent = item.entity
        label = "{}:{}".format(rname, item.id)
        emit(label, type(ent).__name__, item.name, item.resistance)
        valid, exc = attempt(label + ":valid", ent.is_valid)
        emit(label, "valid", valid)
        if not valid:
            continue
        os_, _ = attempt(label, ent.overhang_start)
        oe_, _ = attempt(label, ent.overhang_end)
        tgt, _ = attempt(label, ent.target_sequence)
        emit(label, str(os_), str(oe_), None if tgt is None else d_record(tgt))
        if isinstance(ent, AbstractVector):
            ph, _ = attempt(label, ent.placeholder_sequence)
            emit(label, "placeholder", None if ph is None else short(ph))
            vectors.append(item)
        else:
            by_start.setdefault((type(ent).cutter.__name__, str(os_).upper()), []).append(item)
    # random assemblies: walk the overhang chain from each vector
    rng = random.Random(rname)
    for item in vectors:
        vec = item.entity
        for trial in range(3):
            cutter = type(vec).cutter.__name__
            nxt, stop = str(vec.overhang_end()).upper(), str(vec.overhang_start()).upper()
            chain = []
            seen = set()
            while nxt != stop and nxt not in seen and len(chain) < 10:
                seen.add(nxt)
                cands = by_start.get((cutter, nxt))
                if not cands:
                    break
                pick = rng.choice(cands)
                chain.append(pick.entity)
                nxt = str(pick.entity.overhang_end()).upper()
            if not chain:
                break
            label = "{}:asm:{}:{}".format(rname, item.id, trial)
            emit(label, [m.record.id for m in chain])
            res, exc = attempt(label, vec.assemble, *chain, id="{}_{}".format(item.id, trial)[:16], name="asm{}".format(trial))
            if exc is None:
                COUNT["products"] += 1
                emit(label, "PRODUCT", d_record(res))
                emit(label, d_genbank(res))
            for ent in chain + [vec]:
                emit(label, "INPUT-AFTER", short(ent.record))

# the reference assembly of the test-suite
from tests._utils import AssemblyTestCase  # noqa: E402


class _Loader(AssemblyTestCase):
    def runTest(self):
        pass


try:
    result, vector, modules = _Loader().load_data("ytk_integration_vector")
    mods = [
        ytk.YTKPart1(modules["pYTK008.gb"]),
        ytk.YTKPart234r(modules["pYTK047.gb"]),
        ytk.YTKPart5(modules["pYTK073.gb"]),
        ytk.YTKPart6(modules["pYTK074.gb"]),
        ytk.YTKPart7(modules["pYTK086.gb"]),
        ytk.YTKPart8b(modules["pYTK092.gb"]),
    ]
    assemble("ytk_integration_vector", ytk.YTKPart8a(vector), mods, id="pYTK096x", name="integration")
except Exception as e:  # noqa
    emit("ytk_integration_vector", "load failure", type(e).__name__)

print("lines={lines} products={products} errors={errors} warnings={warnings}".format(**COUNT))
print("DIGEST", H.hexdigest())
