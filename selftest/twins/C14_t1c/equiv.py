# coding: utf-8
"""Differential test for the code touched by the pull request.

Exercises `moclo.record.CircularRecord` (construction, containment, slicing,
ambiguous operations, reverse complement with every option, rotations in
both directions), `moclo.regex`, the core module / vector classes with
several enzymes, assemblies (successful and failing, with citations) and
every embedded registry, and prints a digest of every result, exception
(type, message, args), warning and of the state of the inputs afterwards.

Set EQUIV_DUMP=<file> to get the individual lines.
"""
import hashlib
import os
import random
import sys
import warnings

sys.path.insert(0, "/tmp/agents9/C14")
import tests  # noqa: E402,F401

from Bio.Seq import Seq  # noqa: E402
from Bio.SeqFeature import (  # noqa: E402
    SeqFeature,
    FeatureLocation,
    CompoundLocation,
    BeforePosition,
    AfterPosition,
    ExactPosition,
    Reference,
)
from Bio.SeqRecord import SeqRecord  # noqa: E402
from Bio import Restriction  # noqa: E402

from moclo.record import CircularRecord  # noqa: E402
from moclo.regex import DNARegex  # noqa: E402
from moclo import core, errors  # noqa: E402

LINES = []


def emit(*fields):
    LINES.append(" | ".join(str(f) for f in fields))


def show_location(loc):
    if loc is None:
        return "None"
    parts = []
    for part in loc.parts:
        parts.append(
            "{}({!r},{!r},{!r},{!r},{!r})".format(
                type(part).__name__, part.start, part.end, part.strand, part.ref, part.ref_db
            )
        )
    op = getattr(loc, "operator", "-")
    return "{}[{}]{}".format(type(loc).__name__, op, ";".join(parts))


def show_reference(ref):
    if isinstance(ref, Reference):
        return "Ref({},{},{})".format(ref.title, ref.authors, [show_location(l) for l in ref.location])
    return repr(ref)


def show_annotations(annotations):
    out = []
    for key in sorted(annotations):
        value = annotations[key]
        if key == "references":
            value = [show_reference(r) for r in value]
        out.append("{}={!r}".format(key, value))
    return "{" + ",".join(out) + "}"


def show_qualifiers(qualifiers):
    out = []
    for key in sorted(qualifiers):
        value = qualifiers[key]
        if key == "citation":
            value = [show_reference(r) for r in value]
        out.append("{}={!r}".format(key, value))
    return "{" + ",".join(out) + "}"


def show(obj):
    if isinstance(obj, SeqRecord):
        feats = [
            "<{}|{}|{}|{}>".format(f.type, f.id, show_location(f.location), show_qualifiers(f.qualifiers))
            for f in obj.features
        ]
        return "{}(seq={}:{!r}, id={!r}, name={!r}, desc={!r}, dbxrefs={!r}, ann={}, letters={!r}, features=[{}])".format(
            type(obj).__name__,
            type(obj.seq).__name__,
            None if obj.seq is None else str(obj.seq),
            obj.id,
            obj.name,
            obj.description,
            obj.dbxrefs,
            show_annotations(obj.annotations),
            sorted(obj.letter_annotations.items()),
            ", ".join(feats),
        )
    if isinstance(obj, Seq):
        return "Seq({})".format(str(obj))
    if obj is None or isinstance(obj, (bool, int, float, str, tuple, list, dict)):
        return "{}:{!r}".format(type(obj).__name__, obj)
    return "<{}>".format(type(obj).__name__)


def show_exception(err):
    args = []
    for a in err.args:
        if hasattr(a, "record"):
            args.append("<{} {}>".format(type(a).__name__, a.record.id))
        else:
            args.append(show(a))
    try:
        text = str(err)
    except Exception as err2:  # noqa
        text = "<str failed: {}>".format(type(err2).__name__)
    cause = type(err.__cause__).__name__ if err.__cause__ is not None else None
    return "{}: {} args=[{}] cause={} suppress={}".format(
        type(err).__name__, text, ", ".join(args), cause, err.__suppress_context__
    )


def attempt(label, func, *args, **kwargs):
    with warnings.catch_warnings(record=True) as caught:
        warnings.simplefilter("always")
        try:
            result = func(*args, **kwargs)
        except Exception as err:  # noqa
            emit(label, "RAISED", show_exception(err))
            result = None
        else:
            emit(label, "OK", show(result))
    for w in caught:
        emit(label, "WARNING", w.category.__name__, str(w.message))
    return result


# --- generated circular records ---------------------------------------------


class Plasmid(CircularRecord):
    pass


def build(rng, i):
    n = rng.randint(4, 30)
    seq = "".join(rng.choice("ACGTacgtN") for _ in range(n))
    features = []
    if rng.random() < 0.5:
        strand = rng.choice([1, 1, -1, None])
        features.append(SeqFeature(FeatureLocation(0, n, strand), type="source", qualifiers={"organism": ["x"]}))
    if rng.random() < 0.1:
        features.append(
            SeqFeature(
                CompoundLocation([FeatureLocation(0, n // 2, 1), FeatureLocation(n // 2, n, 1)]),
                type="source",
            )
        )
    for j in range(rng.randint(0, 5)):
        kind = rng.random()
        strand = rng.choice([1, -1, None])
        if kind < 0.45:
            a = rng.randint(0, n - 1)
            b = rng.randint(a + 1, n)
            loc = FeatureLocation(a, b, strand)
        elif kind < 0.6:
            a = rng.randint(1, n - 1)
            b = rng.randint(n + 1, n + a)
            loc = FeatureLocation(a, b, strand)
        elif kind < 0.7:
            a = rng.randint(n, 2 * n)
            b = rng.randint(a + 1, a + n)
            loc = FeatureLocation(a, b, strand)
        elif kind < 0.8:
            a = rng.randint(0, n - 2)
            b = rng.randint(a + 1, n)
            loc = FeatureLocation(BeforePosition(a), AfterPosition(b), strand)
        elif kind < 0.87:
            a = rng.randint(0, n - 2)
            b = rng.randint(a + 1, n)
            loc = FeatureLocation(a, b, strand, ref="other", ref_db="db")
        else:
            cuts = sorted(rng.sample(range(0, n + 1), 4))
            parts = [FeatureLocation(cuts[0], cuts[1], strand), FeatureLocation(cuts[2], cuts[3], strand)]
            if rng.random() < 0.5:
                parts.reverse()
            loc = CompoundLocation(parts, operator=rng.choice(["join", "order"]))
        quals = {"label": ["f{}".format(j)], "note": ["n", i]}
        features.append(SeqFeature(loc, type=rng.choice(["CDS", "misc_feature", "source", "promoter"]), id="id{}".format(j), qualifiers=quals))
    annotations = rng.choice(
        [
            None,
            {},
            {"topology": "circular"},
            {"topology": "Circular", "molecule_type": "DNA"},
            {"molecule_type": "DNA", "comment": ["a", "b"]},
        ]
    )
    letters = None
    if rng.random() < 0.4:
        letters = {"phred_quality": [rng.randint(0, 40) for _ in range(n)], "tag": "".join(rng.choice("xyz") for _ in range(n))}
    cls = Plasmid if i % 7 == 0 else CircularRecord
    kwargs = dict(id="rec{}".format(i), name="name{}".format(i), description="desc {}".format(i))
    if rng.random() < 0.2:
        kwargs = {}
    return cls(
        Seq(seq),
        dbxrefs=rng.choice([None, [], ["DB:1", "DB:2"]]),
        features=features,
        annotations=annotations,
        letter_annotations=letters,
        **kwargs
    )


def exercise_record(rng, i):
    rec = build(rng, i)
    n = len(rec)
    tag = "R{}".format(i)
    before = show(rec)
    emit(tag, "built", before)

    # construction
    attempt(tag + " copy", CircularRecord, rec)
    attempt(tag + " copy-sub", Plasmid, rec)
    plain = SeqRecord(rec.seq, id=rec.id, name=rec.name, description=rec.description, features=list(rec.features), annotations=dict(rec.annotations, topology="linear"))
    attempt(tag + " from-linear", CircularRecord, plain)
    plain.annotations["topology"] = "CIRCULAR"
    wrapped = attempt(tag + " from-plain", CircularRecord, plain)
    if wrapped is not None:
        emit(tag, "detached", wrapped.features is not plain.features, all(a is not b for a, b in zip(wrapped.features, plain.features)))

    # containment, slicing, ambiguous operations
    doubled = str(rec.seq) * 2
    for _ in range(3):
        a = rng.randint(0, n - 1)
        sub = doubled[a : a + rng.randint(1, n + 1)]
        attempt(tag + " in " + sub, rec.__contains__, sub)
        attempt(tag + " in-seq " + sub, rec.__contains__, Seq(sub.upper()))
    attempt(tag + " in-miss", rec.__contains__, "ACGTTGCA" * 5)
    for index in [0, -1, n, rng.randint(0, n - 1), slice(None), slice(1, None), slice(rng.randint(0, n), rng.randint(0, n)), slice(None, None, 2), slice(-3, None), "x", 1.5]:
        attempt(tag + " getitem {!r}".format(index), rec.__getitem__, index)
    attempt(tag + " add", lambda: rec + rec)
    attempt(tag + " add-str", lambda: rec + "ACGT")
    attempt(tag + " radd", lambda: "ACGT" + rec)
    attempt(tag + " radd-rec", lambda: SeqRecord(Seq("ACGT")) + rec)

    # reverse complement with every option
    rc = attempt(tag + " rc", rec.reverse_complement)
    if rc is not None:
        emit(tag, "rc type", type(rc).__name__, type(rc) is type(rec))
        attempt(tag + " rc rc", rc.reverse_complement)
    attempt(tag + " rc keep", rec.reverse_complement, id=True, name=True, description=True, annotations=True, dbxrefs=True)
    attempt(tag + " rc str", rec.reverse_complement, id="new", name="newname", description="newdesc")
    attempt(tag + " rc nofeat", rec.reverse_complement, features=False, letter_annotations=False)
    attempt(tag + " rc given", rec.reverse_complement, features=[SeqFeature(FeatureLocation(0, 1, 1), type="x")], annotations={"topology": "circular", "k": 1}, dbxrefs=["Z"], letter_annotations={"tag": "q" * n})
    attempt(tag + " rc linear-ann", rec.reverse_complement, annotations={"topology": "linear"})
    attempt(tag + " rc positional", rec.reverse_complement, True, "nm", False, True, True, False, True)
    attempt(tag + " rc positional-short", rec.reverse_complement, False, False, True, False)
    attempt(tag + " rc bad-kw", rec.reverse_complement, feature=True)
    attempt(tag + " rc too-many", rec.reverse_complement, 1, 2, 3, 4, 5, 6, 7, 8)

    # rotations
    for k in [0, 1, -1, n, -n, n - 1, n + 1, 3 * n + 2, -(2 * n) - 3, rng.randint(-50, 50), rng.randint(1, n)]:
        right = attempt(tag + " >> {}".format(k), rec.__rshift__, k)
        left = attempt(tag + " << {}".format(k), rec.__lshift__, k)
        emit(tag, "identity", k, right is rec, left is rec)
        if right is not None and right is not rec:
            emit(tag, "shared", k, right.annotations is rec.annotations, right.dbxrefs is rec.dbxrefs, all(a.qualifiers is b.qualifiers for a, b in zip(right.features, rec.features)))
    for k in ["a", 1.5, None, 2.0, True]:
        attempt(tag + " >> {!r}".format(k), rec.__rshift__, k)
        attempt(tag + " << {!r}".format(k), rec.__lshift__, k)
    j, k = rng.randint(1, n), rng.randint(1, n)
    attempt(tag + " chain", lambda: ((rec >> j).reverse_complement() << k) >> j)
    attempt(tag + " chain2", lambda: (rec.reverse_complement() << j).reverse_complement() >> k)
    attempt(tag + " chain3", lambda: ((rec >> j) >> k)[1 : n - 1])
    attempt(tag + " chain4", lambda: (rec << j).reverse_complement()[:])

    # regex on the record
    for pattern in ["ACG", "NNGT", "RY", str(rec.seq)[-2:] + str(rec.seq)[:2]]:
        rx = DNARegex(pattern.upper())
        for target, kw in [(rec, {}), (rec, {"linear": False}), (rec[:], {}), (rec[:], {"linear": False}), (rec.seq, {}), (rec.seq, {"linear": False}), (rec, {"pos": 2}), (rec, {"pos": 1, "endpos": 3})]:
            label = "{} search {} {} {}".format(tag, pattern, type(target).__name__, sorted(kw.items()))
            with warnings.catch_warnings(record=True) as caught:
                warnings.simplefilter("always")
                try:
                    m = rx.search(target, **kw)
                except Exception as err:  # noqa
                    emit(label, "RAISED", show_exception(err))
                    continue
                if m is None:
                    emit(label, "None")
                else:
                    try:
                        group = show(m.group())
                    except Exception as err:  # noqa
                        group = show_exception(err)
                    emit(label, m.span(), m.start(), m.end(), m.shift, m.rec is target, group)
            for w in caught:
                emit(label, "WARNING", w.category.__name__, str(w.message))

    emit(tag, "unchanged", show(rec) == before)


# --- special constructions --------------------------------------------------


def exercise_special():
    attempt("empty >>", lambda: CircularRecord(Seq("")) >> 1)
    attempt("empty <<", lambda: CircularRecord(Seq("")) << 1)
    attempt("empty rc", lambda: CircularRecord(Seq("")).reverse_complement())
    attempt("no args", CircularRecord)
    attempt("str seq", CircularRecord, "ACGT")
    attempt("none seq", CircularRecord, None)
    attempt("kw seq", lambda: CircularRecord(seq=Seq("ACGT"), id="k", annotations={"topology": "circular"}))
    attempt("kw record", lambda: CircularRecord(seq=SeqRecord(Seq("ACGT"), id="inner"), id="ignored"))
    attempt("linear", lambda: CircularRecord(Seq("ACGT"), annotations={"topology": "linear"}))
    attempt("topology int", lambda: CircularRecord(Seq("ACGT"), annotations={"topology": 1}))
    attempt("bad letters", lambda: CircularRecord(Seq("ACGT"), letter_annotations={"q": [1]}))
    attempt("protein", lambda: CircularRecord(Seq("MKV"), annotations={"molecule_type": "protein"}).reverse_complement())
    attempt("rna", lambda: CircularRecord(Seq("ACGU"), annotations={"molecule_type": "RNA"}).reverse_complement(annotations=True))
    rec = CircularRecord(Seq("ACGTACGTAC"), id="nl", features=[SeqFeature(None, type="nowhere"), SeqFeature(FeatureLocation(8, 10, -1), type="x")])
    attempt("none location >>", lambda: rec >> 3)
    attempt("none location rc", rec.reverse_complement)
    attempt("none location slice", lambda: rec[2:])
    import re
    from moclo.regex import SeqMatch

    def keyword_match():
        m = SeqMatch(re.match("(A)(C)", "ACGTACGT"), rec=Seq("ACGT"), shift=2)
        out = [show(m.rec), m.shift, show(m.group()), show(m.group(2)), m.span(1), sorted(vars(m)) != []]
        m.rec = CircularRecord(Seq("TTAC"), id="swapped")
        out.append(show(m.group()))
        out.append(show(m.rec))
        return out

    attempt("seqmatch keyword", keyword_match)
    attempt("seqmatch positional", lambda: show(SeqMatch(re.match("A", "ACGT"), Seq("ACGT"), 1).rec))
    for modname, names in [
        ("moclo.record", ["CircularRecord", "CompoundLocation", "FeatureLocation", "SeqFeature", "SeqRecord", "_ambiguous", "copy", "functools", "six", "typing"]),
        ("moclo.regex", ["DNARegex", "SeqMatch", "CircularRecord", "_S", "re", "six", "typing", "Bio"]),
        ("moclo.core._assembly", ["AssemblyManager", "CircularRecord", "SeqRecord", "Seq", "errors", "catch_warnings", "BiopythonWarning", "six", "re", "warnings"]),
        ("moclo.registry.base", ["CircularRecord", "EmbeddedRegistry", "FilesystemRegistry", "CombinedRegistry", "AbstractRegistry", "Item"]),
        ("moclo.errors", ["MocloError", "InvalidSequence", "IllegalSite", "AssemblyError", "DuplicateModules", "MissingModule", "AssemblyWarning", "UnusedModules", "six", "typing"]),
    ]:
        module = __import__(modname, fromlist=["*"])
        emit("names", modname, [(n, hasattr(module, n)) for n in names])
    emit("mro", [c.__name__ for c in CircularRecord.__mro__])
    for name in ["__add__", "__radd__", "__contains__", "__getitem__", "reverse_complement", "__lshift__", "__rshift__", "__init__"]:
        method = getattr(CircularRecord, name)
        emit("method", name, method.__name__, (method.__doc__ or "").strip().splitlines()[:1])


# --- core classes, assemblies ----------------------------------------------


def make_classes(enzyme):
    class MockVector(core.EntryVector):
        cutter = enzyme

    class MockModule(core.Product):
        cutter = enzyme

    MockVector.__name__ = "MockVector"
    MockModule.__name__ = "MockModule"
    return MockVector, MockModule


def reference(title):
    ref = Reference()
    ref.title = title
    ref.authors = "someone"
    ref.location = [FeatureLocation(0, 4)]
    return ref


def exercise_core(rng):
    for name in ["BpiI", "BsaI", "BsmBI", "SapI", "BtsI", "BseRI", "EcoRV", "EcoRI"]:
        enzyme = getattr(Restriction, name)
        tag = "core " + name
        MockVector, MockModule = None, None
        try:
            MockVector, MockModule = make_classes(enzyme)
            emit(tag, "structure", MockModule.structure(), MockVector.structure())
        except Exception as err:  # noqa
            emit(tag, "RAISED", show_exception(err))
        for cls in (MockVector, MockModule):
            if cls is None:
                continue
            for seq in ["ATG", "CCATGCTTGTCTTCCACAGAAGACTTCGTAGG", "TTTTGAAGACTTATGCAAAAAAAACGTATTGTCTTCTTTT"]:
                for wrap in (CircularRecord, SeqRecord):
                    label = "{} {} {} {}".format(tag, cls.__name__, wrap.__name__, seq)
                    ent = attempt(label + " new", lambda: cls(wrap(Seq(seq), id="x")))
                    if ent is None:
                        continue
                    attempt(label + " valid", ent.is_valid)
                    attempt(label + " start", ent.overhang_start)
                    attempt(label + " end", ent.overhang_end)
                    attempt(label + " target", ent.target_sequence)
                    if hasattr(ent, "placeholder_sequence"):
                        attempt(label + " placeholder", ent.placeholder_sequence)

    MockVector, MockModule = make_classes(Restriction.BpiI)

    def plasmid(seq, id_, cite=None, rotate=0, case=None, wrap=CircularRecord):
        if case == "lower":
            seq = seq.lower()
        elif case == "mixed":
            seq = "".join(c.lower() if i % 3 else c for i, c in enumerate(seq))
        n = len(seq)
        feats = [
            SeqFeature(FeatureLocation(0, n, 1), type="source", qualifiers={"organism": ["x"]}),
            SeqFeature(FeatureLocation(4, n - 4, -1), type="CDS", qualifiers={"label": [id_]}),
        ]
        ann = {"topology": "circular", "molecule_type": "DNA"}
        if cite:
            ann["references"] = [reference(t) for t in cite]
            feats[1].qualifiers["citation"] = ["[{}]".format(len(cite))]
            feats[0].qualifiers["citation"] = ["[1]"]
        rec = wrap(Seq(seq), id=id_, name=id_, features=feats, annotations=ann)
        if rotate:
            rec = CircularRecord(rec) >> rotate
        return rec

    vseq = "CCATGCTTGTCTTCCACAGAAGACTTCGTAGGAATTAACC"
    m1seq = "TTTTGAAGACTTATGCAAACCCAAAGGACTTGTCTTCTTTTAACCGG"
    m2seq = "TTTTGAAGACTTGGACTTTGGGTTTGGCGTATTGTCTTCTTTTCCAATT"
    m3seq = "TTTTGAAGACTTAGGTTTTGAGTTTGGTTCATTGTCTTCTTTTCCAATT"
    m1bseq = "TTTTGAAGACTTATGCTTTCCCTTTGGACTTGTCTTCTTTTAACCGG"
    m4seq = "TTTTGAAGACTTGTCCAAACCCAAATTCGTTGTCTTCTTTTAACCGG"  # start is revcomp of GGAC
    for case in [None, "lower", "mixed"]:
        for rotate in [0, 7, 23]:
            for wrap in (CircularRecord, SeqRecord):
                if wrap is SeqRecord and rotate:
                    continue
                tag = "asm case={} rot={} {}".format(case, rotate, wrap.__name__)

                def parts():
                    v = MockVector(plasmid(vseq, "vec", cite=["vec paper"], rotate=rotate, case=case, wrap=wrap))
                    m1 = MockModule(plasmid(m1seq, "m1", cite=["m1 paper", "shared paper"], rotate=rotate, case=case, wrap=wrap))
                    m2 = MockModule(plasmid(m2seq, "m2", cite=["shared paper"], rotate=rotate, case=None, wrap=wrap))
                    m3 = MockModule(plasmid(m3seq, "m3", rotate=rotate, case=case, wrap=wrap))
                    m1b = MockModule(plasmid(m1bseq, "m1b", rotate=rotate, case=case, wrap=wrap))
                    m4 = MockModule(plasmid(m4seq, "m4", rotate=rotate, case=case, wrap=wrap))
                    return v, m1, m2, m3, m1b, m4

                scenarios = {
                    "ok": lambda v, m1, m2, m3, m1b, m4: (v, [m1, m2], {}),
                    "ok-named": lambda v, m1, m2, m3, m1b, m4: (v, [m2, m1], {"id": "myid", "name": "myname"}),
                    "missing": lambda v, m1, m2, m3, m1b, m4: (v, [m1], {}),
                    "missing-first": lambda v, m1, m2, m3, m1b, m4: (v, [m2], {}),
                    "unused": lambda v, m1, m2, m3, m1b, m4: (v, [m1, m2, m3], {}),
                    "duplicate": lambda v, m1, m2, m3, m1b, m4: (v, [m1, m1b, m2], {}),
                    "revcomp": lambda v, m1, m2, m3, m1b, m4: (v, [m1, m2, m4], {}),
                }
                for sname in sorted(scenarios):
                    v, mods, kw = scenarios[sname](*parts())
                    everything = [v] + mods
                    before = [show(e.record) for e in everything]
                    result = attempt(tag + " " + sname, v.assemble, *mods, **kw)
                    emit(tag, sname, "inputs unchanged", [show(e.record) == b for e, b in zip(everything, before)])
                    if result is not None:
                        attempt(tag + " " + sname + " rc", result.reverse_complement)
                        attempt(tag + " " + sname + " rot", lambda: (result >> 11).reverse_complement() << 11)
                with warnings.catch_warnings():
                    warnings.simplefilter("error")
                    v, m1, m2, m3, m1b, m4 = parts()
                    attempt(tag + " unused-as-error", v.assemble, m1, m2, m3)
    bad = MockVector(CircularRecord(Seq("CCATGCTTGTCTTCCACAGAAGACTTCATGGG"), id="bad"))
    attempt("asm same-overhang", bad.assemble, MockModule(CircularRecord(Seq(m1seq), id="m1")))
    for exc in [
        errors.InvalidSequence("SEQ"),
        errors.InvalidSequence("SEQ", details="d"),
        errors.InvalidSequence("SEQ", ValueError("v"), "d"),
        errors.IllegalSite("SEQ", details="d"),
        errors.MissingModule("ACGT"),
        errors.MissingModule("ACGT", details="d"),
    ]:
        emit("exc", show_exception(exc), sorted(vars(exc).items(), key=str))


# --- registries --------------------------------------------------------------


def exercise_registries():
    import moclo.registry.ytk
    import moclo.registry.cidar
    import moclo.registry.ecoflex
    import moclo.registry.plant

    registries = [
        moclo.registry.ytk.YTKRegistry,
        moclo.registry.ytk.PTKRegistry,
        moclo.registry.cidar.CIDARRegistry,
        moclo.registry.ecoflex.EcoFlexRegistry,
        moclo.registry.plant.PlantRegistry,
    ]
    for cls in registries:
        registry = cls()
        for key in sorted(registry):
            with warnings.catch_warnings(record=True) as caught:
                warnings.simplefilter("always")
                item = registry[key]
                record = item.entity.record
                n = len(record)
                digest = hashlib.sha256(show(record).encode("utf-8")).hexdigest()[:16]
                rc = record.reverse_complement()
                rcd = hashlib.sha256(show(rc).encode("utf-8")).hexdigest()[:16]
                rot = (record >> (n // 3)).reverse_complement() << (n // 3)
                rotd = hashlib.sha256(show(rot).encode("utf-8")).hexdigest()[:16]
                sl = hashlib.sha256(show((record << 17)[5:-5]).encode("utf-8")).hexdigest()[:16]
                emit(cls.__name__, item.id, item.name, item.resistance, type(item.entity).__name__, type(record).__name__, n, digest, type(rc).__name__, rcd, type(rot).__name__, rotd, sl, item.entity.is_valid())
            for w in caught:
                emit(cls.__name__, key, "WARNING", w.category.__name__, str(w.message))

    # kit classes
    import inspect
    import moclo.kits.ytk
    import moclo.kits.cidar
    import moclo.kits.ecoflex
    import moclo.kits.moclo
    import moclo.kits.plant

    for module in [moclo.kits.ytk, moclo.kits.cidar, moclo.kits.ecoflex, moclo.kits.moclo, moclo.kits.plant]:
        for name, cls in sorted(inspect.getmembers(module, inspect.isclass)):
            if cls.__module__ != module.__name__:
                continue
            try:
                structure = cls.structure()
            except Exception as err:  # noqa
                structure = show_exception(err)
            emit("kit", module.__name__, name, [b.__name__ for b in cls.__mro__], structure)


def main():
    rng = random.Random(2014)
    warnings.simplefilter("ignore")  # warnings are recorded where they matter
    exercise_special()
    for i in range(260):
        exercise_record(rng, i)
    exercise_core(rng)
    exercise_registries()
    text = "\n".join(LINES)
    if os.environ.get("EQUIV_DUMP"):
        with open(os.environ["EQUIV_DUMP"], "w") as handle:
            handle.write(text + "\n")
    print("lines: {}".format(len(LINES)))
    print("digest: {}".format(hashlib.sha256(text.encode("utf-8")).hexdigest()))


if __name__ == "__main__":
    main()
