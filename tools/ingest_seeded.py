#!/venv/bin/python
"""tools/ingest_seeded.py <dir with patch.diff demo.py meta.json> [...]
Confirm a seeded change independently (applies on the pristine tree, demo passes without / fails with it, the pinned suite
passes with it), run the twenty quick checks against it, and file it under /verif/seeded/<id>/."""
import json, os, shutil, subprocess, sys, tempfile
V = os.path.dirname(os.path.dirname(os.path.abspath(__file__)))
ALL = ["C%02d" % i for i in range(1, 21)]

def run(cmd, cwd, env=None, timeout=1800):
    pr = subprocess.run(cmd, cwd=cwd, env=env, stdout=subprocess.PIPE, stderr=subprocess.STDOUT, text=True, timeout=timeout)
    return pr.returncode, pr.stdout

def ingest(src):
    sid = os.path.basename(os.path.normpath(src))
    meta = json.load(open(os.path.join(src, "meta.json")))
    d = tempfile.mkdtemp(prefix="verif_seed_")
    res = {"id": sid, "property": meta.get("property")}
    try:
        wt = os.path.join(d, "repo")
        shutil.copytree("/repo", wt, ignore=shutil.ignore_patterns(".git", "__pycache__", "notebook", "docs"))
        demo = open(os.path.join(src, "demo.py")).read()
        # the demo refers to the author's worktree; aim it at the scratch copy
        import re
        demo2 = re.sub(r"/tmp/agents\d*/C\d\d", wt, demo)
        os.makedirs(os.path.join(wt, "seeded_out", sid), exist_ok=True)
        dpath = os.path.join(wt, "seeded_out", sid, "demo.py")
        open(dpath, "w").write(demo2)
        rc0, out0 = run(["/venv/bin/python", dpath], wt)
        res["demo_pristine_exit"] = rc0
        rc, out = run(["git", "apply", "--verbose", os.path.abspath(os.path.join(src, "patch.diff"))], wt)
        res["patch_applies"] = rc == 0
        if rc != 0:
            res["error"] = out[-400:]
            return res
        rc1, out1 = run(["/venv/bin/python", dpath], wt)
        res["demo_patched_exit"] = rc1
        res["demo_patched_tail"] = out1.strip().splitlines()[-1][:300] if out1.strip() else ""
        rcs, outs = run(["/venv/bin/python", "-m", "pytest", "-q", "-p", "no:cacheprovider", "--timeout=900", "-x"], wt)
        res["suite_exit"] = rcs
        res["suite_tail"] = outs.strip().splitlines()[-1][:200] if outs.strip() else ""
        env = dict(os.environ, VERIF_REPO=wt, VERIF_EVIDENCE_DIR=os.path.join(d, "evidence"))
        fired, errors, lines = [], [], {}
        for pid in ALL:
            rcc, outc = run(["/venv/bin/python", "-B", "-m", "sa.cli", pid, "--tier", "quick"], V, env)
            if rcc == 1:
                fired.append(pid)
                lines[pid] = [l for l in outc.splitlines() if "rule=" in l][:2]
            elif rcc != 0:
                errors.append(pid)
                lines[pid] = [l for l in outc.splitlines() if "ANALYSIS-ERROR" in l][:1]
        res["checks_fired"] = fired
        res["checks_error"] = errors
        res["check_lines"] = lines
        res["confirmed"] = rc0 == 0 and rc1 != 0 and rcs == 0
        return res
    finally:
        shutil.rmtree(d, ignore_errors=True)

if __name__ == "__main__":
    from concurrent.futures import ThreadPoolExecutor
    srcs = sys.argv[1:]
    with ThreadPoolExecutor(max_workers=6) as ex:
        for src, res in zip(srcs, ex.map(ingest, srcs)):
            sid = res["id"]
            own = res.get("property")
            print("%s confirmed=%s own=%s fired=%s errors=%s demo=(%s,%s) suite=%s" % (sid, res.get("confirmed"), own, res.get("checks_fired"), res.get("checks_error"), res.get("demo_pristine_exit"), res.get("demo_patched_exit"), res.get("suite_tail", res.get("error", ""))[:60]), flush=True)
            if own in (res.get("checks_fired") or []):
                pass
            else:
                for pid, l in (res.get("check_lines") or {}).items():
                    print("    ", pid, l[:1])
            if res.get("confirmed"):
                dst = os.path.join(V, "seeded", sid)
                os.makedirs(dst, exist_ok=True)
                for f in ("patch.diff", "demo.py"):
                    shutil.copy2(os.path.join(src, f), os.path.join(dst, f))
                meta = json.load(open(os.path.join(src, "meta.json")))
                meta["breaks_property"] = own
                meta["confirmed_by"] = {
                    "what_was_run": "scratch copy of /repo: demo.py on the pristine copy (exit %s), git apply patch.diff, demo.py again (exit %s: %s), pinned suite with the change (%s), then the twenty quick checks with VERIF_REPO aimed at the copy" % (res["demo_pristine_exit"], res["demo_patched_exit"], res.get("demo_patched_tail", ""), res.get("suite_tail", "")),
                    "checks_fired": res["checks_fired"], "checks_analysis_error": res["checks_error"],
                    "first_report": {k: v[:1] for k, v in res["check_lines"].items()},
                    "caught_by_own_property_check": own in res["checks_fired"],
                }
                json.dump(meta, open(os.path.join(dst, "meta.json"), "w"), indent=1)
