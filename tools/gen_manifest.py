#!/venv/bin/python
import json, os
V = os.path.dirname(os.path.dirname(os.path.abspath(__file__)))
props = [json.loads(l) for l in open(os.path.join(V, "properties.jsonl"))]
TECH = {
 "C01": "constant folding of structure() + pattern algebra over 58 enzymes; abstract interpretation (affine terms under order facts, interval-list sequences) of target_sequence and of one inductive step of the assembly walk",
 "C02": "abstract interpretation of DNARegex.search, SeqMatch.group, rotation and fragment extraction over an exhaustive fork-generated partition of (span, n) regions",
 "C03": "abstract interpretation of the map builder and the walk with uninterpreted overhang terms and a symbolic dict (scenario forks: absent/present/reverse complement, hit/miss); syntax rule for order independence",
 "C04": "constant folding + pattern geometry for all concrete kit classes; MRO resolution and threshold analysis of the illegal-site screen; abstract interpretation of accessors, target and placeholder",
 "C05": "constant folding + canonical-form equality of part and generic patterns (symbolic signatures in thorough tier); MRO resolution; structural rule on characterize()",
 "C06": "write-set scan for state outliving a call + inheritable-memo rule on class-level slots (own-namespace guard), with a built-in positive fixture",
 "C07": "inter-procedural write-set with provenance over the resolved call graph; abstract interpretation of assemble() for acquire/release pairing on all exits; deep-copy freshness barrier rules",
 "C08": "abstract interpretation of feature relocation in __rshift__ (regions of part bounds x rotation); derivation tracking of fragments; writer inventory for feature lists and qualifiers",
 "C09": "abstract interpretation of assemble()/_annotate_assembly/add_as_source: def-use of id/name, must-assign of annotations, one source feature per fragment",
 "C10": "abstract interpretation of the citation reader/writer index maps; writer/reader agreement on folded constants; phase ordering of assemble()",
 "C11": "constant folding + language inclusion between one-run patterns by alignment enumeration",
 "C12": "constant folding + reverse-complement symmetry of canonical pattern forms for every enzyme; accessor mapping; circular-typed reverse_complement rule",
 "C13": "abstract interpretation of __rshift__/__lshift__ for an arbitrary integer k (residue symbol), letter annotations, feature parts and carry-over",
 "C14": "abstract interpretation of the reverse_complement override: parameter forwarding and circular-typed result; copy-constructor deep-copy rule",
 "C15": "abstract interpretation of __contains__, __init__ (topology scenarios), __getitem__; all-paths-raise rule for +",
 "C16": "folding of the transcription on all IUPAC codes against Bio.Data.IUPACData; abstract interpretation of search and group",
 "C17": "class-table checks, raise inventory on the MRO of _match, abstract interpretation of accessors on a non-matching record, exception classes of the assembly kernels, builtin-method lint",
 "C18": "taint over the walk kernels' recorded effects: overhang terms reaching ==/dict keys must pass a case normaliser; case flag via the folded transcription",
 "C19": "read-set / non-interference over the abstract walk: attribute reads on opaque modules and fork conditions; syntax rule on .record uses",
 "C20": "sibling-agreement rules over the registry classes' syntax trees; data lint of 362 GenBank files (stem == record id) and built archives",
}
checks = []
for p in props:
    pid = p["id"]
    checks.append({
        "property_id": pid,
        "quick_cmd": "cd /verif && ./check %s --tier quick" % pid,
        "thorough_cmd": "cd /verif && ./check %s --tier thorough" % pid,
        "evidence_file": "/verif/evidence/%s.json" % pid,
        "replay_cmd_template": "cd /verif && ./check %s --replay {path}" % pid,
        "engine": "sa",
        "level_claimed": {
            "category": "other",
            "text": "Static analysis of the current source of /repo (never imported or executed): a set of obligations -- named necessary conditions of the property, each tied to a repo construct and, for arithmetic kernels, to a region of an exhaustive partition of the kernel's input space -- all of which must be discharged. The check decides those structural/arithmetic conditions for all inputs at once; it does not decide library behaviour (see evidence.not_decided). Thorough adds every enzyme of the quantifier, symbolic signatures and the property's slice of the mutation self-test.",
            "design_ref": "DESIGN.md section 5, %s" % pid,
        },
        "level_note": "Trusted base T1-T5 (CPython semantics of the modelled constructs, re.match anchoring/windows, Biopython 1.88 contracts read from its source, Bio.Restriction enzyme constants, IUPAC table). An unsupported construct, a vanished anchor or an instance floor not met is exit 2 ANALYSIS-ERROR, never a pass.",
        "technique": TECH[pid],
    })
m = {
    "version": 1,
    "setup_cmd": "cd /verif && /venv/bin/python -B -c \"import ast,glob; [ast.parse(open(f).read()) for f in glob.glob('sa/**/*.py', recursive=True)]; print('ok')\"",
    "hooks": {
        "guard": "ALTHONOS_MOCLO_VERIF",
        "enable": "none needed: the checks are static analyses of the source tree; nothing in /repo is instrumented and no hook commit exists",
        "baseline_off_cmd": "cd /repo && /venv/bin/python -m pytest -ra -q -p no:cacheprovider --timeout=900 --continue-on-collection-errors",
        "source_commits": [],
        "add_only": True,
    },
    "engines": [{
        "name": "sa",
        "path": "/verif/sa",
        "serves_properties": [p["id"] for p in props],
        "kind_free_text": "repo-specific static analyser: ast loader + class table with C3 MRO, constant folder for structure(), DNA pattern algebra, abstract interpreter (affine terms under linear order facts with Fourier-Motzkin entailment, interval-list sequences, symbolic maps, uninterpreted terms), provenance write-set over the call graph, syntax rules",
    }],
    "checks": checks,
    "notes": "Static analysis only: /repo is parsed with ast on every run and never imported. VERIF_REPO selects another tree (used by the self-test on scratch copies). Fixes to genuine defects are recorded in known_findings.txt as 'fixed:' lines.",
    "not_applicable": [],
}
json.dump(m, open(os.path.join(V, "MANIFEST.json"), "w"), indent=1)
print("wrote MANIFEST.json with %d checks" % len(checks))
