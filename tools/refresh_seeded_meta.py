#!/venv/bin/python
"""tools/refresh_seeded_meta.py <corpus result json (python -m sa.selftest --out ...)>
Record in every seeded/<id>/meta.json what the checks say today (the meta files are written when a change is filed; the
rules have been strengthened since): confirmed_by.rechecked = {checks_fired, checks_analysis_error, caught_by_own_property_check}."""
import json, os, sys
V = os.path.dirname(os.path.dirname(os.path.abspath(__file__)))
rows = {r["id"]: r for r in json.load(open(sys.argv[1]))}
n = 0
for sid in sorted(os.listdir(os.path.join(V, "seeded"))):
    mp = os.path.join(V, "seeded", sid, "meta.json")
    if not os.path.exists(mp) or sid not in rows:
        continue
    m = json.load(open(mp))
    own = m.get("breaks_property") or m.get("property")
    r = rows[sid]
    c = m.setdefault("confirmed_by", {})
    c["rechecked"] = {"checks_fired": r["fired"], "checks_analysis_error": r["errors"], "caught_by_own_property_check": own in r["fired"]}
    c["checks_fired"], c["checks_analysis_error"], c["caught_by_own_property_check"] = r["fired"], r["errors"], own in r["fired"]
    json.dump(m, open(mp, "w"), indent=1)
    n += 1
print("refreshed", n)
