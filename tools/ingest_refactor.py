#!/venv/bin/python
"""tools/ingest_refactor.py <dir with patch.diff equiv.py meta.json> [...]
Confirm a behaviour-preserving refactoring (applies, suite passes, equiv.py prints the same digest before and after), run
the twenty quick checks against it (all must stay at exit 0) and file it under /verif/selftest/twins/<id>/."""
import json, os, re, shutil, subprocess, sys, tempfile
V = os.path.dirname(os.path.dirname(os.path.abspath(__file__)))
ALL = ["C%02d" % i for i in range(1, 21)]

def run(cmd, cwd, env=None):
    pr = subprocess.run(cmd, cwd=cwd, env=env, stdout=subprocess.PIPE, stderr=subprocess.STDOUT, text=True, timeout=3600)
    return pr.returncode, pr.stdout

def ingest(src):
    sid = os.path.basename(os.path.normpath(src))
    d = tempfile.mkdtemp(prefix="verif_twin_")
    res = {"id": sid}
    try:
        wt = os.path.join(d, "repo")
        shutil.copytree("/repo", wt, ignore=shutil.ignore_patterns(".git", "__pycache__", "notebook", "docs"))
        eq = re.sub(r"/tmp/agentsR\d*/R\d+", wt, open(os.path.join(src, "equiv.py")).read())
        os.makedirs(os.path.join(wt, "refactor_out", sid), exist_ok=True)
        ep = os.path.join(wt, "refactor_out", sid, "equiv.py")
        open(ep, "w").write(eq)
        rc0, out0 = run(["/venv/bin/python", ep], wt)
        rc, out = run(["git", "apply", os.path.abspath(os.path.join(src, "patch.diff"))], wt)
        if rc != 0:
            res["error"] = "patch does not apply: " + out[-300:]
            return res
        rc1, out1 = run(["/venv/bin/python", ep], wt)
        dig0 = [l for l in out0.splitlines() if l.strip()][-1:] ; dig1 = [l for l in out1.splitlines() if l.strip()][-1:]
        res["equiv"] = rc0 == 0 and rc1 == 0 and dig0 == dig1
        res["digests"] = (dig0, dig1)
        rcs, outs = run(["/venv/bin/python", "-m", "pytest", "-q", "-p", "no:cacheprovider", "--timeout=900", "-x"], wt)
        res["suite_ok"] = rcs == 0
        env = dict(os.environ, VERIF_REPO=wt, VERIF_EVIDENCE_DIR=os.path.join(d, "evidence"))
        alarms, errors, lines = [], [], {}
        for pid in ALL:
            rcc, outc = run(["/venv/bin/python", "-B", "-m", "sa.cli", pid, "--tier", "quick"], V, env)
            if rcc == 1:
                alarms.append(pid); lines[pid] = [l for l in outc.splitlines() if "rule=" in l][:2]
            elif rcc != 0:
                errors.append(pid); lines[pid] = [l for l in outc.splitlines() if "ANALYSIS-ERROR" in l][:1]
        res.update(alarms=alarms, errors=errors, lines=lines)
        return res
    finally:
        shutil.rmtree(d, ignore_errors=True)

if __name__ == "__main__":
    from concurrent.futures import ThreadPoolExecutor
    srcs = sys.argv[1:]
    with ThreadPoolExecutor(max_workers=6) as ex:
        for src, res in zip(srcs, ex.map(ingest, srcs)):
            print("%s equiv=%s suite=%s alarms=%s errors=%s %s" % (res["id"], res.get("equiv"), res.get("suite_ok"), res.get("alarms"), res.get("errors"), res.get("error", "")), flush=True)
            for pid, l in (res.get("lines") or {}).items():
                print("     ", pid, [x[:260] for x in l[:1]])
            if res.get("equiv") and res.get("suite_ok"):
                dst = os.path.join(V, "selftest", "twins", res["id"])
                os.makedirs(dst, exist_ok=True)
                for f in ("patch.diff", "equiv.py"):
                    shutil.copy2(os.path.join(src, f), os.path.join(dst, f))
                meta = json.load(open(os.path.join(src, "meta.json")))
                meta["confirmed"] = "patch applies to the pristine tree; equiv.py prints the same digest before and after; pinned suite passes"
                meta["checks_alarm_when_filed"] = res.get("alarms"); meta["checks_error_when_filed"] = res.get("errors")
                json.dump(meta, open(os.path.join(dst, "meta.json"), "w"), indent=1)
