#!/bin/sh
# tools/pair_status.sh <pair dir> [clean|slip] : the twenty quick checks against a scratch copy with clean.diff (default) or slip.diff
# VERIF_CHECK=<path of a `check` script> runs a development copy of the machinery instead of /verif/check.
dir=$(readlink -f "$1"); which=${2:-clean}
check=${VERIF_CHECK:-/verif/check}
d=$(mktemp -d /tmp/verif_pair_XXXX)
cp -r /repo/moclo /repo/moclo-* "$d"/ 2>/dev/null
(cd "$d" && git apply "$dir/$which.diff") || { echo "$(basename $dir) $which: does not apply"; rm -rf "$d"; exit 3; }
out=""
for c in C01 C02 C03 C04 C05 C06 C07 C08 C09 C10 C11 C12 C13 C14 C15 C16 C17 C18 C19 C20; do
  raw=$(VERIF_REPO="$d" VERIF_EVIDENCE_DIR="$d/ev" "$check" "$c" --no-selftest 2>&1 | grep -v WARNING)
  res=$(echo "$raw" | grep -E "rule=|ANALYSIS" | head -1 | cut -c1-${COLS_MAX:-330})
  # a run that neither reports nor ends with its summary line crashed (a syntax error in the machinery, an import failure)
  if [ -z "$res" ] && ! echo "$raw" | grep -q "violations=0"; then res="ANALYSIS-ERROR property=$c CRASH $(echo "$raw" | tail -1 | cut -c1-200)"; fi
  if [ -n "$res" ]; then out="$out
   $c $res"; fi
done
echo "== $(basename $dir) $which$out"
rm -rf "$d"
