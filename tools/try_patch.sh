#!/bin/sh
# tools/try_patch.sh <patch.diff> <check ids...> : run quick checks against a scratch copy of /repo with the patch applied
p=$(readlink -f "$1"); shift
d=$(mktemp -d /tmp/verif_try_XXXX)
cp -r /repo/moclo /repo/moclo-* "$d"/ 2>/dev/null
(cd "$d" && git apply "$p") || { echo "patch does not apply"; rm -rf "$d"; exit 3; }
for c in "$@"; do
  VERIF_REPO="$d" VERIF_EVIDENCE_DIR="$d/ev" /verif/check "$c" 2>&1 | grep -v WARNING | grep -E "rule=|property=|ANALYSIS" | head -${LINES_MAX:-3} | cut -c1-${COLS_MAX:-260}
done
rm -rf "$d"
