#!/venv/bin/python
"""Append refactoring twins (behaviour-preserving rewrites of the kernels) to the corpus (idempotent)."""
import json
A='moclo/moclo/core/_assembly.py'; R='moclo/moclo/record.py'; V='moclo/moclo/core/vectors.py'; M='moclo/moclo/core/modules.py'; S='moclo/moclo/core/_structured.py'; X='moclo/moclo/regex.py'; B='moclo/moclo/registry/base.py'
new=[]
def twin(id,prop,file,old,new_,note,kind='twin'):
    new.append({"id":id,"property":prop,"kind":kind,"file":file,"occurrence":0,"old":old,"new":new_,"suite":"unknown","note":note})
GROUP_OLD='''        span = self.match.span(index)
        if span[1] >= span[0] >= len(self.rec):
            return self.rec[
                span[0] % len(self.rec) : span[1] % len(self.rec)
            ]  # type: ignore
        elif span[1] >= len(self.rec) > span[0]:
            return (
                self.rec[span[0] :] + self.rec[: span[1] % len(self.rec)]
            )  # type: ignore
        else:
            return self.rec[span[0] : span[1]]  # type: ignore
'''
twin('tw20','C16',X,GROUP_OLD,'''        start, end = self.match.span(index)
        n = len(self.rec)
        if start >= n:
            return self.rec[start - n : end - n]  # type: ignore
        if end > n:
            return self.rec[start:] + self.rec[: end - n]  # type: ignore
        return self.rec[start:end]  # type: ignore
''','group(): hoisted n, subtraction instead of modulo, early returns')
twin('tw21','C16',X,GROUP_OLD,'''        span = self.match.span(index)
        n = len(self.rec)
        q, r = divmod(span[0], n)
        if q >= 1:
            return self.rec[r : span[1] - q * n]  # type: ignore
        elif span[1] >= n:
            return self.rec[span[0] :] + self.rec[: span[1] - n]  # type: ignore
        else:
            return self.rec[span[0] : span[1]]  # type: ignore
''','group(): divmod')
twin('tw22','C16',X,'''        if not linear or isinstance(string, CircularRecord):
            data *= 2

        for i in range(pos, min(len(string), endpos)):
            match = self.regex.match(data, i, i + len(string))''','''        n = len(string)
        circular = isinstance(string, CircularRecord) or not linear
        if circular:
            data = data + data

        for i in range(pos, min(n, endpos)):
            match = self.regex.match(data, i, i + n)''','search(): hoisted length, named flag, explicit doubling')
twin('tw23','C13',R,'''        index %= len(self.seq)  # avoid unnecessary cycles
''','''        n = len(self)
        index = index % n  # avoid unnecessary cycles
''','__rshift__: len(self), plain assignment')
twin('tw24','C13',R,'newseq = self.seq[-index:] + self.seq[:-index]','cut = len(self.seq) - index\n        newseq = self.seq[cut:] + self.seq[:cut]','__rshift__: positive cut point')
twin('tw25','C15',R,'return len(char) <= len(self) and char in str(self.seq) * 2','if len(char) > len(self):\n            return False\n        text = str(self.seq)\n        return char in text + text','__contains__: early return, explicit doubling')
twin('tw26','C01',M,'''            start, end = self._match.span(1)[0], self._match.span(2)[1]
        return add_as_source(self.record, (self.record << start)[: end - start])''','''            start = self._match.span(1)[0]
            end = self._match.span(3)[0]
        length = end - start
        return add_as_source(self.record, (self.record << start)[:length])''','module target: separate assignments, span(3)[0], named length')
twin('tw27','C01',V,'return add_as_source(self.record, (self.record << start)[end - start :])','rotated = self.record << start\n        return add_as_source(self.record, rotated[end - start : len(rotated)])','vector target: explicit upper bound')
twin('tw28','C03',A,'''        if modmap:
            warnings.warn(errors.UnusedModules(*modmap.values()))''','''        if len(modmap) > 0:
            unused = list(modmap.values())
            warnings.warn(errors.UnusedModules(*unused))''','leftovers via len() and a local list')
twin('tw29','C03',A,'''            raise six.raise_from(errors.MissingModule(ke.args[0]), None)''','''            missing = ke.args[0]
            raise errors.MissingModule(missing)''','plain raise of MissingModule')
twin('tw30','C09',A,'''        assembly.id = self.id
        assembly.name = self.name
        ants = assembly.annotations
''','''        assembly.name = self.name
        assembly.id = self.id
        ants = assembly.annotations
''','statement order in the annotation block')
twin('tw31','C07',A,'''        try:
            assembly = self._generate_assembly(modmap)
            self._annotate_assembly(assembly)
            self._ref_citations(assembly)
        finally:
            for elem in self.elements:
                self._ref_citations(elem.record)

        return assembly''','''        try:
            assembly = self._generate_assembly(modmap)
            self._annotate_assembly(assembly)
            self._ref_citations(assembly)
        except BaseException:
            for elem in self.elements:
                self._ref_citations(elem.record)
            raise
        for elem in self.elements:
            self._ref_citations(elem.record)

        return assembly''','catch-all + re-raise instead of finally')
twin('tw32','C06',S,'''        if cls.__dict__.get("_regex") is None:
            cls._regex = DNARegex(cls.structure())
        return cls._regex''','''        regex = cls.__dict__.get("_regex")
        if regex is None:
            regex = cls._regex = DNARegex(cls.structure())
        return regex''','own-namespace read bound to a local')
twin('tw33','C14',R,'''        return type(self)(
            super(CircularRecord, self).reverse_complement(
                id=id,
                name=name,
                description=description,
                features=features,
                annotations=annotations,
                letter_annotations=letter_annotations,
                dbxrefs=dbxrefs,
            )
        )''','''        rc = super(CircularRecord, self).reverse_complement(
            id=id,
            name=name,
            description=description,
            features=features,
            annotations=annotations,
            letter_annotations=letter_annotations,
            dbxrefs=dbxrefs,
        )
        return rc''','reverse_complement without the re-wrap (the library result is born circular under Biopython 1.88)')
twin('tw34','C20',B,'''        return len(self._data)

''','''        return self._data.__len__()

''','CombinedRegistry.__len__ through the dunder',kind='twin')
d=json.load(open('/verif/selftest/corpus.json'))
ids={e['id'] for e in d['edits']}
added=0
for e in new:
    if e['id'] in ids: continue
    s=open('/repo/'+e['file']).read()
    assert s.count(e['old'])>0,(e['id'],e['old'][:50])
    d['edits'].append(e); added+=1
json.dump(d,open('/verif/selftest/corpus.json','w'),indent=1)
print(len(d['edits']),'entries,',added,'added')
