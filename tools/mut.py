#!/venv/bin/python
"""tools/mut.py FILE OLD NEW [--occ N] -- CMD...   run CMD with VERIF_REPO pointing at a scratch copy of /repo with one edit."""
import os, shutil, subprocess, sys, tempfile

def scratch_copy(src="/repo"):
    d = tempfile.mkdtemp(prefix="verif_mut_")
    for name in os.listdir(src):
        if name in (".git", "docs", "notebook", "scripts", "tests") and name != "docs":
            continue
        s = os.path.join(src, name)
        if os.path.isdir(s):
            shutil.copytree(s, os.path.join(d, name), ignore=shutil.ignore_patterns("__pycache__", "*.pyc", "build", "*.egg-info"))
        else:
            shutil.copy2(s, os.path.join(d, name))
    return d

def apply_edit(root, file, old, new, occ=0):
    p = os.path.join(root, file)
    s = open(p).read()
    idx = -1
    start = 0
    for _ in range(occ + 1):
        idx = s.find(old, start)
        if idx < 0:
            raise SystemExit("edit does not apply: %r not found in %s" % (old, file))
        start = idx + 1
    s = s[:idx] + new + s[idx + len(old):]
    open(p, "w").write(s)

if __name__ == "__main__":
    a = sys.argv[1:]
    i = a.index("--")
    spec, cmd = a[:i], a[i + 1:]
    occ = 0
    if "--occ" in spec:
        j = spec.index("--occ"); occ = int(spec[j + 1]); del spec[j:j + 2]
    d = scratch_copy()
    try:
        for k in range(0, len(spec), 3):
            apply_edit(d, spec[k], spec[k + 1].encode().decode("unicode_escape"), spec[k + 2].encode().decode("unicode_escape"), occ)
        env = dict(os.environ, VERIF_REPO=d)
        sys.exit(subprocess.call(cmd, env=env))
    finally:
        shutil.rmtree(d, ignore_errors=True)
