#!/venv/bin/python
"""Write /verif/seeded/INDEX.md from the meta.json files."""
import glob, json, os
V = os.path.dirname(os.path.dirname(os.path.abspath(__file__)))
rows = []
for f in sorted(glob.glob(os.path.join(V, "seeded", "*", "meta.json"))):
    m = json.load(open(f))
    c = m.get("confirmed_by", {})
    rows.append((os.path.basename(os.path.dirname(f)), m.get("breaks_property") or m.get("property"), m.get("summary", "").replace("|", "/"),
                 m.get("needs", "").replace("|", "/"), c.get("caught_by_own_property_check"), ", ".join(c.get("checks_fired", [])), m.get("note", "")))
out = ["# Seeded changes (written by sub-agents that saw only the property text)", "",
       "Each was confirmed in a scratch copy of /repo: the demonstration passes on the pristine tree and fails with the change, the pinned suite (4507 tests) passes with the change; then the twenty quick checks were run with VERIF_REPO aimed at the copy. `own` = the check of the property the change was written against exits 1.", "",
       "| id | property | change | needs | own check fires | all checks that fire |", "|---|---|---|---|---|---|"]
for r in rows:
    out.append("| %s | %s | %s | %s | %s | %s |" % (r[0], r[1], r[2][:160], r[3][:140], "yes" if r[4] else "**no**" + (" — " + r[6] if r[6] else ""), r[5]))
n = len(rows); own = sum(1 for r in rows if r[4])
out += ["", "%d changes, %d caught by the check of their own property, %d by at least one check." % (n, own, sum(1 for r in rows if r[5]))]
open(os.path.join(V, "seeded", "INDEX.md"), "w").write("\n".join(out) + "\n")
print(out[-1])
