#!/venv/bin/python
"""Run the pinned suite once on a scratch copy of /repo with each corpus edit whose verdict is unknown; write
selftest/suite_verdicts.json (id -> survives|killed, first failing test).  Checker validation data, not evidence."""
import json, os, shutil, subprocess, sys, tempfile
from concurrent.futures import ThreadPoolExecutor
sys.path.insert(0, os.path.dirname(os.path.dirname(os.path.abspath(__file__))))
from sa.selftest import apply_edit

V = os.path.dirname(os.path.dirname(os.path.abspath(__file__)))
corpus = json.load(open(os.path.join(V, "selftest", "corpus.json")))["edits"]
outp = os.path.join(V, "selftest", "suite_verdicts.json")
done = json.load(open(outp)) if os.path.exists(outp) else {}
todo = [e for e in corpus if e.get("suite") == "unknown" and e["id"] not in done]
if len(sys.argv) > 1:
    want = set(sys.argv[1].split(","))
    todo = [e for e in corpus if e["id"] in want]

def one(e):
    d = tempfile.mkdtemp(prefix="verif_suite_")
    try:
        dst = os.path.join(d, "repo")
        shutil.copytree("/repo", dst, ignore=shutil.ignore_patterns(".git", "__pycache__", "notebook", "docs"))
        for ed in (e.get("edits") or [e]):
            err = apply_edit(dst, ed)
            if err:
                return e["id"], {"suite": "error", "detail": err}
        pr = subprocess.run(["/venv/bin/python", "-m", "pytest", "-x", "-q", "-p", "no:cacheprovider", "--timeout=900"], cwd=dst,
                            stdout=subprocess.PIPE, stderr=subprocess.STDOUT, text=True)
        tail = pr.stdout.strip().splitlines()[-1] if pr.stdout.strip() else ""
        failed = [l for l in pr.stdout.splitlines() if l.startswith(("FAILED", "ERROR"))]
        return e["id"], {"suite": "survives" if pr.returncode == 0 else "killed", "detail": (failed[0] if failed else tail)[:200]}
    finally:
        shutil.rmtree(d, ignore_errors=True)

with ThreadPoolExecutor(max_workers=8) as ex:
    for i, (k, v) in enumerate(ex.map(one, todo)):
        done[k] = v
        print(k, v, flush=True)
        json.dump(done, open(outp, "w"), indent=1, sort_keys=True)
print("done", len(done))
