#!/venv/bin/python
"""tools/ingest_pair.py <dir with clean.diff slip.diff demo.py equiv.py meta.json> [...]
A pair = one behaviour-preserving refactoring (CLEAN) and the same refactoring with one slip that breaks a property (SLIP).
Confirm both independently (CLEAN: applies, suite passes, demo passes, equiv digest unchanged; SLIP: applies, suite passes,
demo fails), run the twenty quick checks against both, and file CLEAN under /verif/selftest/twins/<id>c/ and SLIP under
/verif/seeded/<id>/ (so that the corpus demands: silent on the first, the own property's check fires on the second)."""
import json, os, re, shutil, subprocess, sys, tempfile
V = os.path.dirname(os.path.dirname(os.path.abspath(__file__)))
ALL = ["C%02d" % i for i in range(1, 21)]


def run(cmd, cwd, env=None, timeout=3600):
    pr = subprocess.run(cmd, cwd=cwd, env=env, stdout=subprocess.PIPE, stderr=subprocess.STDOUT, text=True, timeout=timeout)
    return pr.returncode, pr.stdout


def scratch(d, name):
    wt = os.path.join(d, name)
    shutil.copytree("/repo", wt, ignore=shutil.ignore_patterns(".git", "__pycache__", "notebook", "docs"))
    return wt


def place(src, wt, sid, fname):
    txt = re.sub(r"/tmp/agents\d*/C\d\d", wt, open(os.path.join(src, fname)).read())
    os.makedirs(os.path.join(wt, "pairs_out", sid), exist_ok=True)
    p = os.path.join(wt, "pairs_out", sid, fname)
    open(p, "w").write(txt)
    return p


def checks(wt, d, tag):
    env = dict(os.environ, VERIF_REPO=wt, VERIF_EVIDENCE_DIR=os.path.join(d, "evidence_" + tag))
    fired, errors, lines = [], [], {}
    for pid in ALL:
        rcc, outc = run(["/venv/bin/python", "-B", "-m", "sa.cli", pid, "--tier", "quick"], V, env)
        if rcc == 1:
            fired.append(pid)
            lines[pid] = [l for l in outc.splitlines() if "rule=" in l][:2]
        elif rcc != 0:
            errors.append(pid)
            lines[pid] = [l for l in outc.splitlines() if "ANALYSIS-ERROR" in l][:1]
    return fired, errors, lines


def last(out):
    ls = [l for l in out.splitlines() if l.strip()]
    return ls[-1][:300] if ls else ""


def ingest(src):
    sid = os.path.basename(os.path.normpath(src))
    meta = json.load(open(os.path.join(src, "meta.json")))
    d = tempfile.mkdtemp(prefix="verif_pair_")
    res = {"id": sid, "property": meta.get("property")}
    try:
        # pristine
        w0 = scratch(d, "pristine")
        rc0, out0 = run(["/venv/bin/python", place(src, w0, sid, "demo.py")], w0)
        rce0, oute0 = run(["/venv/bin/python", place(src, w0, sid, "equiv.py")], w0)
        res["demo_pristine"] = rc0
        # clean: in the very directory the pristine run used (a digest may contain paths of the tree it ran in)
        w1 = w0
        rc, out = run(["git", "apply", os.path.abspath(os.path.join(src, "clean.diff"))], w1)
        if rc != 0:
            res["error"] = "clean.diff does not apply: " + out[-300:]
            return res
        rc1, out1 = run(["/venv/bin/python", place(src, w1, sid, "demo.py")], w1)
        rce1, oute1 = run(["/venv/bin/python", place(src, w1, sid, "equiv.py")], w1)
        rcs1, outs1 = run(["/venv/bin/python", "-m", "pytest", "-q", "-p", "no:cacheprovider", "--timeout=900", "-x"], w1)
        res["demo_clean"] = rc1
        res["equiv"] = rce0 == 0 and rce1 == 0 and last(oute0) == last(oute1) and bool(last(oute0))
        res["digests"] = (last(oute0), last(oute1))
        res["suite_clean"] = last(outs1)
        res["clean_ok"] = rc0 == 0 and rc1 == 0 and res["equiv"] and rcs1 == 0
        res["clean_fired"], res["clean_errors"], res["clean_lines"] = checks(w1, d, "clean")
        # slip
        w2 = scratch(d, "slip")
        rc, out = run(["git", "apply", os.path.abspath(os.path.join(src, "slip.diff"))], w2)
        if rc != 0:
            res["error"] = "slip.diff does not apply: " + out[-300:]
            return res
        rc2, out2 = run(["/venv/bin/python", place(src, w2, sid, "demo.py")], w2)
        rcs2, outs2 = run(["/venv/bin/python", "-m", "pytest", "-q", "-p", "no:cacheprovider", "--timeout=900", "-x"], w2)
        res["demo_slip"] = rc2
        res["demo_slip_tail"] = last(out2)
        res["suite_slip"] = last(outs2)
        res["slip_ok"] = rc0 == 0 and rc2 != 0 and rcs2 == 0
        res["slip_fired"], res["slip_errors"], res["slip_lines"] = checks(w2, d, "slip")
        return res
    finally:
        shutil.rmtree(d, ignore_errors=True)


if __name__ == "__main__":
    from concurrent.futures import ThreadPoolExecutor
    srcs = sys.argv[1:]
    with ThreadPoolExecutor(max_workers=5) as ex:
        for src, res in zip(srcs, ex.map(ingest, srcs)):
            sid, own = res["id"], res.get("property")
            print("%s own=%s CLEAN ok=%s (demo %s equiv %s suite %s) alarms=%s errors=%s | SLIP ok=%s (demo %s suite %s) fired=%s errors=%s %s" % (
                sid, own, res.get("clean_ok"), res.get("demo_clean"), res.get("equiv"), (res.get("suite_clean") or "")[:40], res.get("clean_fired"), res.get("clean_errors"),
                res.get("slip_ok"), res.get("demo_slip"), (res.get("suite_slip") or "")[:40], res.get("slip_fired"), res.get("slip_errors"), res.get("error", "")), flush=True)
            for pid, l in (res.get("clean_lines") or {}).items():
                print("     CLEAN", pid, [x[:300] for x in l[:1]])
            if own not in (res.get("slip_fired") or []):
                for pid, l in (res.get("slip_lines") or {}).items():
                    print("     SLIP ", pid, [x[:300] for x in l[:1]])
            meta = json.load(open(os.path.join(src, "meta.json")))
            if res.get("clean_ok"):
                dst = os.path.join(V, "selftest", "twins", sid + "c")
                os.makedirs(dst, exist_ok=True)
                shutil.copy2(os.path.join(src, "clean.diff"), os.path.join(dst, "patch.diff"))
                shutil.copy2(os.path.join(src, "equiv.py"), os.path.join(dst, "equiv.py"))
                m = {"property": own, "summary": "clean half of pair %s: %s" % (sid, meta.get("refactoring", "")), "files": meta.get("files"),
                     "confirmed": "clean.diff applies to the pristine tree; demo.py passes; equiv.py prints the same digest before and after; pinned suite passes (%s)" % res.get("suite_clean"),
                     "checks_alarm_when_filed": res.get("clean_fired"), "checks_error_when_filed": res.get("clean_errors")}
                json.dump(m, open(os.path.join(dst, "meta.json"), "w"), indent=1)
            if res.get("slip_ok"):
                dst = os.path.join(V, "seeded", sid)
                os.makedirs(dst, exist_ok=True)
                shutil.copy2(os.path.join(src, "slip.diff"), os.path.join(dst, "patch.diff"))
                shutil.copy2(os.path.join(src, "demo.py"), os.path.join(dst, "demo.py"))
                m = {"property": own, "breaks_property": own,
                     "summary": "refactoring with one slip: %s [refactoring: %s]" % (meta.get("slip", ""), meta.get("refactoring", "")),
                     "needs": meta.get("needs"), "files": meta.get("files"), "changed_lines": meta.get("slip_lines"), "pair": sid + "c",
                     "confirmed_by": {
                         "what_was_run": "scratch copies of /repo: demo.py on the pristine copy (exit %s) and with clean.diff (exit %s); with slip.diff demo.py exits %s (%s); pinned suite with the slip (%s); then the twenty quick checks with VERIF_REPO aimed at each copy" % (
                             res.get("demo_pristine"), res.get("demo_clean"), res.get("demo_slip"), res.get("demo_slip_tail"), res.get("suite_slip")),
                         "checks_fired": res.get("slip_fired"), "checks_analysis_error": res.get("slip_errors"),
                         "first_report": {k: v[:1] for k, v in (res.get("slip_lines") or {}).items()},
                         "caught_by_own_property_check": own in (res.get("slip_fired") or []),
                         "clean_twin_alarms": res.get("clean_fired"), "clean_twin_errors": res.get("clean_errors")}}
                json.dump(m, open(os.path.join(dst, "meta.json"), "w"), indent=1)
